/-
  Threads over a shared memory, and the call-graph/effect table regenerated from the source (C20).

  A thread is a program over its private state `δ` and a call stack of function numbers; at each step the
  function on top of the stack performs one action: a read of a shared location (continuing with the value
  read), a write of a shared location, a private step, a call or a return.  The shared memory is everything
  threads have in common: the compiled schema and the package-level variables.  Private state (browser,
  selections, stores, writers, the objects a load is building) lives in `δ`.

  `Table` is what /verif/effects/cmd/vfx extracts: per function its callees and whether it contains a write to shared
  state (a package-level variable, or the compiled schema while it is in use).  `Conforms` ties a program to the table: a function only
  performs the writes and calls the table lists for it.  That the real functions conform to the extracted
  table is the translator's claim (trusted, see DESIGN.md); everything after it is proved.
-/
namespace YangVerif.Conc

structure Table where
  fns : List (List Nat × Bool)   -- callees, contains a write to shared state
  entries : List Nat
  count : Nat
deriving Repr

def Table.callees (t : Table) (f : Nat) : List Nat :=
  match t.fns[f]? with
  | some (cs, _) => cs
  | none => []

/-- a function the table does not know is taken to write -/
def Table.writes (t : Table) (f : Nat) : Bool :=
  match t.fns[f]? with
  | some (_, w) => w
  | none => true

/-- the check run on the regenerated table: it lists exactly `count` functions, entries and callees stay inside
    it (so it is closed under calls), and none of them writes -/
def Table.ok (t : Table) : Bool :=
  t.fns.length == t.count && t.entries.all (· < t.count) &&
  t.fns.all (fun e => e.1.all (· < t.count) && !e.2)

/-- the table of a whole scenario from the two phases the translator emits (callees, writes a package-level
    variable, writes the compiled schema): a function reachable while *using* a schema counts both kinds of
    write; one reachable while *loading* counts only package-level variables, because the schema objects a load
    writes are the ones it is building (private to it until it returns).  A function reachable in both phases
    appears once per phase; the load phase is numbered behind the use phase. -/
def Table.ofPhases (useFns loadFns : List (List Nat × Bool × Bool)) (useEntries loadEntries : List Nat) : Table :=
  let k := useFns.length
  { fns := useFns.map (fun e => (e.1, e.2.1 || e.2.2)) ++ loadFns.map (fun e => (e.1.map (· + k), e.2.1)),
    entries := useEntries ++ loadEntries.map (· + k),
    count := k + loadFns.length }

/-- functions some execution can be in: entries and, transitively, their callees -/
inductive Reach (t : Table) : Nat → Prop
  | entry {f} : f ∈ t.entries → Reach t f
  | call {f g} : Reach t f → g ∈ t.callees f → Reach t g

inductive Act (δ : Type)
  | rd (loc : Nat) (k : Int → δ)
  | wr (loc : Nat) (v : Int) (d : δ)
  | tau (d : δ)
  | call (g : Nat) (d : δ)
  | ret (d : δ)

abbrev Prog (δ : Type) := δ → Nat → Act δ

structure Thread (δ : Type) where
  d : δ
  stack : List Nat

abbrev Mem := Nat → Int

/-- one step of a thread: new thread, new memory, the shared access made (location, is-write) -/
def stepThread {δ : Type} (p : Prog δ) (mem : Mem) (th : Thread δ) : Thread δ × Mem × Option (Nat × Bool) :=
  match th.stack with
  | [] => (th, mem, none)
  | f :: rest =>
    match p th.d f with
    | .rd l k => ({ d := k (mem l), stack := f :: rest }, mem, some (l, false))
    | .wr l v d => ({ d := d, stack := f :: rest }, (fun x => if x = l then v else mem x), some (l, true))
    | .tau d => ({ d := d, stack := f :: rest }, mem, none)
    | .call g d => ({ d := d, stack := g :: f :: rest }, mem, none)
    | .ret d => ({ d := d, stack := rest }, mem, none)

structure Ev where
  tid : Nat
  loc : Nat
  isWrite : Bool
deriving Repr, DecidableEq

structure Sys (δ : Type) where
  mem : Mem
  ths : List (Thread δ)

def evOf (i : Nat) : Option (Nat × Bool) → List Ev
  | none => []
  | some (l, w) => [{ tid := i, loc := l, isWrite := w }]

/-- thread `i` takes a step (a thread that does not exist or has finished does nothing) -/
def sysStep {δ : Type} (p : Prog δ) (i : Nat) (s : Sys δ) : Sys δ × List Ev :=
  match s.ths[i]? with
  | none => (s, [])
  | some th =>
    let r := stepThread p s.mem th
    ({ mem := r.2.1, ths := s.ths.set i r.1 }, evOf i r.2.2)

/-- a schedule is the list of thread numbers in the order they step -/
def run {δ : Type} (p : Prog δ) : List Nat → Sys δ → Sys δ × List Ev
  | [], s => (s, [])
  | i :: rest, s =>
    let r := sysStep p i s
    let r2 := run p rest r.1
    (r2.1, r.2 ++ r2.2)

/-- the thread alone: `n` steps against a memory nobody else touches -/
def alone {δ : Type} (p : Prog δ) (mem : Mem) : Nat → Thread δ → Thread δ
  | 0, th => th
  | n + 1, th => alone p mem n (stepThread p mem th).1

/-- two accesses race: different threads, same location, at least one a write -/
def Races (tr : List Ev) : Prop :=
  ∃ a ∈ tr, ∃ b ∈ tr, a.tid ≠ b.tid ∧ a.loc = b.loc ∧ (a.isWrite = true ∨ b.isWrite = true)

/-- the program only does what the table says its functions do -/
def Conforms {δ : Type} (t : Table) (p : Prog δ) : Prop :=
  ∀ d f, match p d f with
    | .wr _ _ _ => t.writes f = true
    | .call g _ => g ∈ t.callees f
    | _ => True

def GoodStacks {δ : Type} (t : Table) (s : Sys δ) : Prop :=
  ∀ th ∈ s.ths, ∀ f ∈ th.stack, Reach t f

end YangVerif.Conc
