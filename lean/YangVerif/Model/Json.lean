/-
  Model of the JSON writer (C15, C04): nodeutil/json_wtr_str.go `writeString` (the copied
  encoding/json escaper, on Unicode scalars), nodeutil/json_wtr.go `container(lvl)` with its
  `first` flag driven by the editor's write-side callbacks, and an RFC 8259 reader of the
  produced token stream.
-/
namespace YangVerif.Json

/-! ### string escaping (scalars = Unicode code points of valid UTF-8 text) -/

abbrev Scalars := List Nat

def hexLow (n : Nat) : Nat := if n < 10 then 48 + n else 87 + n          -- "0123456789abcdef"[n]

/-- htmlSafeSet: printable ASCII without " \ < > & -/
def htmlSafe (c : Nat) : Bool :=
  32 ≤ c && c < 128 && c != 34 && c != 92 && c != 60 && c != 62 && c != 38

def escapeScalar (c : Nat) : Scalars :=
  if c < 128 then
    if htmlSafe c then [c]
    else if c == 92 || c == 34 then [92, c]
    else if c == 10 then [92, 110]
    else if c == 13 then [92, 114]
    else if c == 9 then [92, 116]
    else [92, 117, 48, 48, hexLow (c / 16), hexLow (c % 16)]
  else if c == 0x2028 || c == 0x2029 then [92, 117, 50, 48, 50, hexLow (c % 16)]
  else [c]

/-- the text between the quotes -/
def escape (s : Scalars) : Scalars := s.flatMap escapeScalar

def unhexLow (c : Nat) : Option Nat :=
  if 48 ≤ c && c ≤ 57 then some (c - 48)
  else if 97 ≤ c && c ≤ 102 then some (c - 87)
  else if 65 ≤ c && c ≤ 70 then some (c - 55)
  else none

/-- the two-character escapes \" \\ \/ \b \f \n \r \t -/
def escVal (e : Nat) : Option Nat :=
  if e == 34 then some 34 else if e == 92 then some 92 else if e == 47 then some 47
  else if e == 98 then some 8 else if e == 102 then some 12 else if e == 110 then some 10
  else if e == 114 then some 13 else if e == 116 then some 9 else none

/-- RFC 8259 §7 string body decoder (escapes of the basic plane; a raw quote or control is an error) -/
def unescape : Scalars → Option Scalars
  | [] => some []
  | c :: rest =>
    if c == 92 then
      match rest with
      | 117 :: h1 :: h2 :: h3 :: h4 :: r =>
        match unhexLow h1, unhexLow h2, unhexLow h3, unhexLow h4, unescape r with
        | some a, some b, some c', some d, some r' => some ((((a * 16 + b) * 16 + c') * 16 + d) :: r')
        | _, _, _, _, _ => none
      | e :: r =>
        match escVal e, unescape r with
        | some v, some r' => some (v :: r')
        | _, _ => none
      | [] => none
    else if c == 34 || c < 32 then none
    else (unescape rest).map (c :: ·)

/-! ### values and tokens -/

inductive JVal
  | str (s : Scalars)
  | num (text : String)        -- numbers are passed through as the writer prints them
  | lit (text : String)        -- true false null
  | arr (items : List JVal)
  | obj (members : List (String × JVal))
deriving Repr, Inhabited

inductive Tok
  | lbrace | rbrace | lbrack | rbrack | comma | colon
  | str (s : Scalars) | name (n : String) | num (t : String) | lit (t : String)
deriving DecidableEq, Repr, Inhabited

mutual
  def render : JVal → List Tok
    | .str s => [.str s]
    | .num t => [.num t]
    | .lit t => [.lit t]
    | .arr items => .lbrack :: renderItems items ++ [.rbrack]
    | .obj ms => .lbrace :: renderMembers ms ++ [.rbrace]
  def renderItems : List JVal → List Tok
    | [] => []
    | [v] => render v
    | v :: w :: r => render v ++ .comma :: renderItems (w :: r)
  def renderMembers : List (String × JVal) → List Tok
    | [] => []
    | [(n, v)] => .name n :: .colon :: render v
    | (n, v) :: m :: r => .name n :: .colon :: render v ++ .comma :: renderMembers (m :: r)
end

/-! ### the writer as a consumer of the editor's write-side callbacks -/

inductive Ev
  | field (name : String) (v : JVal)          -- OnField{Write}: a leaf (scalar) or leaf-list (array)
  | childCont (name : String)                 -- OnChild{New} for a container
  | childList (name : String)                 -- OnChild{New} for a list
  | next                                      -- OnNext{New}
  | endCont                                   -- OnEndEdit of a container or list entry
  | endList                                   -- OnEndEdit of a list

/-- state: the `first` flags of the open `container(lvl)` nodes, innermost first -/
abbrev WState := List Bool

def delim (first : Bool) : List Tok := if first then [] else [.comma]

/-- one callback: tokens written and the new state; `none` = a callback the editor never issues here -/
def feed : WState → Ev → Option (List Tok × WState)
  | f :: st, .field n v => some (delim f ++ .name n :: .colon :: render v, false :: st)
  | f :: st, .childCont n => some (delim f ++ [.name n, .colon, .lbrace], true :: false :: st)
  | f :: st, .childList n => some (delim f ++ [.name n, .colon, .lbrack], true :: false :: st)
  | f :: st, .next => some (delim f ++ [.lbrace], true :: false :: st)
  | _ :: st, .endCont => some ([.rbrace], st)
  | _ :: st, .endList => some ([.rbrack], st)
  | [], _ => none

def feedAll : WState → List Ev → Option (List Tok × WState)
  | st, [] => some ([], st)
  | st, e :: r =>
    match feed st e with
    | none => none
    | some (t1, st1) =>
      match feedAll st1 r with
      | none => none
      | some (t2, st2) => some (t1 ++ t2, st2)

/-- what the editor sends for the members of one container body (schema order, entries in order) -/
inductive Member
  | leaf (name : String) (v : JVal)
  | cont (name : String) (body : List Member)
  | list (name : String) (rows : List (List Member))

mutual
  def events : List Member → List Ev
    | [] => []
    | .leaf n v :: r => .field n v :: events r
    | .cont n b :: r => .childCont n :: events b ++ .endCont :: events r
    | .list n rows :: r => .childList n :: rowEvents rows ++ .endList :: events r
  def rowEvents : List (List Member) → List Ev
    | [] => []
    | row :: r => .next :: events row ++ .endCont :: rowEvents r
end

mutual
  /-- the intended JSON value -/
  def toJSON : List Member → List (String × JVal)
    | [] => []
    | .leaf n v :: r => (n, v) :: toJSON r
    | .cont n b :: r => (n, .obj (toJSON b)) :: toJSON r
    | .list n rows :: r => (n, .arr (rowsJSON rows)) :: toJSON r
  def rowsJSON : List (List Member) → List JVal
    | [] => []
    | row :: r => .obj (toJSON row) :: rowsJSON r
end

/-- the whole document: `{`, the members streamed by the editor, `}` -/
def writeDoc (ms : List Member) : Option (List Tok) :=
  (feedAll [true] (events ms)).map fun (t, _) => .lbrace :: t ++ [.rbrace]

/-! ### RFC 8259 reader of the token stream -/

mutual
  def parseVal : Nat → List Tok → Option (JVal × List Tok)
    | 0, _ => none
    | _ + 1, .str s :: r => some (.str s, r)
    | _ + 1, .num t :: r => some (.num t, r)
    | _ + 1, .lit t :: r => some (.lit t, r)
    | f + 1, .lbrack :: .rbrack :: r => some (.arr [], r)
    | f + 1, .lbrack :: r => (parseItems f r).map fun (items, r') => (.arr items, r')
    | f + 1, .lbrace :: .rbrace :: r => some (.obj [], r)
    | f + 1, .lbrace :: r => (parseMembers f r).map fun (ms, r') => (.obj ms, r')
    | _, _ => none
  /-- one or more items, then "]" -/
  def parseItems : Nat → List Tok → Option (List JVal × List Tok)
    | 0, _ => none
    | f + 1, toks =>
      match parseVal f toks with
      | some (v, .comma :: r) => (parseItems f r).map fun (vs, r') => (v :: vs, r')
      | some (v, .rbrack :: r) => some ([v], r)
      | _ => none
  /-- one or more members, then "}" -/
  def parseMembers : Nat → List Tok → Option (List (String × JVal) × List Tok)
    | 0, _ => none
    | f + 1, .name n :: .colon :: toks =>
      match parseVal f toks with
      | some (v, .comma :: r) => (parseMembers f r).map fun (ms, r') => ((n, v) :: ms, r')
      | some (v, .rbrace :: r) => some ([(n, v)], r)
      | _ => none
    | _, _ => none
end

/-- exactly one value, then the end of the text -/
def parseDoc (toks : List Tok) : Option JVal :=
  match parseVal (toks.length + 1) toks with
  | some (v, []) => some v
  | _ => none

end YangVerif.Json
