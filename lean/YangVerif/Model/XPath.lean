/-
  Model of `when`, `where` and notification `filter` (C16): node/xpath_impl.go (resolvePath,
  resolveOperator), node/check_when.go (where each kind of node evaluates its condition),
  node/where.go, node/filter.go.

  Schema and data are positional (a body is aligned with the schema's children); names are only
  used by path steps.  Leaf values are the values a read yields (schema default applied).
-/
namespace YangVerif.XP

/-- typed values as the comparison sees them -/
inductive V
  | int (i : Int)                -- every integer type, signed or unsigned, any width
  | dec (n : Int) (scale : Nat)  -- a number with a fraction: n / 10^scale (decimal64 values, literals like 2.5)
  | str (s : String)
  | bool (b : Bool)
  | enum (label : String)
deriving DecidableEq, Repr, Inhabited

inductive Op | eq | ne | lt | le | gt | ge
deriving DecidableEq, Repr, Inhabited

/-- the order of two values: numbers of every kind are compared as numbers (cross-multiplied, so that nothing
    is rounded: a/10^s ? b/10^t  is  a*10^t ? b*10^s), everything else within its kind -/
def ord : V → V → Option Ordering
  | .int a, .int b => some (compare a b)
  | .dec a s, .dec b t => some (compare (a * 10 ^ t) (b * 10 ^ s))
  | .int a, .dec b t => some (compare (a * 10 ^ t) b)
  | .dec a s, .int b => some (compare a (b * 10 ^ s))
  | .str a, .str b => some (compare a b)
  | .bool a, .bool b => some (compare a.toNat b.toNat)
  | .enum a, .enum b => some (if a = b then .eq else compare a b)
  | _, _ => none

def holds (op : Op) (o : Ordering) : Bool :=
  match op with
  | .eq => o == .eq
  | .ne => o != .eq
  | .lt => o == .lt
  | .le => o != .gt
  | .gt => o == .gt
  | .ge => o != .lt

/-- resolveOperator: no value, no comparison holds; a value of another kind than the literal (a union leaf
    holding its other member type) is not equal to it and not ordered with it: only `!=` holds -/
def evalCmp (op : Op) (leaf : Option V) (lit : V) : Bool :=
  match leaf with
  | none => false
  | some a => match ord a lit with
    | some o => holds op o
    | none => op == .ne

/-- an expression of the XPath subset: a path of names, ending in a comparison with a literal or not -/
structure Expr where
  path : List String
  cmp : Option (Op × V)
deriving Repr, Inhabited

/-- a condition on a schema node; `parentCtx`: stated on the uses / augment that brought the node in -/
structure Cond where
  e : Expr
  parentCtx : Bool
deriving Repr, Inhabited

inductive S
  | leaf (name : String) (conds : List Cond)
  | cont (name : String) (conds : List Cond) (kids : List S)
  | list (name : String) (conds : List Cond) (kids : List S)
deriving Repr, Inhabited

def S.name : S → String
  | .leaf n _ => n | .cont n _ _ => n | .list n _ _ => n
def S.conds : S → List Cond
  | .leaf _ c => c | .cont _ c _ => c | .list _ c _ => c

inductive D
  | leaf (v : Option V)
  | cont (body : Option (List D))
  | list (rows : List (List D))
deriving Repr, Inhabited

/-- the child named `n` of a body -/
def lookup (n : String) : List S → List D → Option (S × D)
  | s :: ss, d :: ds => if s.name = n then some (s, d) else lookup n ss ds
  | _, _ => none

/-- xpathImpl.resolvePath from a context body: containers are entered, a list is satisfied by any of its
    entries (the first that matches ends the search), the last step compares a leaf or asks whether the
    node is there -/
def resolve : List String → Option (Op × V) → List S → List D → Bool
  | [], _, _, _ => true
  | n :: rest, cmp, ss, ds =>
    match lookup n ss ds with
    | some (.leaf _ _, .leaf v) =>
      (match rest, cmp with
        | [], some (op, lit) => evalCmp op v lit
        | [], none => v.isSome
        | _ :: _, _ => false)
    | some (.cont _ _ ks, .cont (some b)) => resolve rest cmp ks b
    | some (.list _ _ ks, .list rows) =>
      !rows.isEmpty && (if rest.isEmpty then true else rows.any fun r => resolve rest cmp ks r)
    | _ => false

def holdsIn (e : Expr) (ss : List S) (ds : List D) : Bool := resolve e.path e.cmp ss ds

/-- CheckWhen.check: every condition of the node, its own evaluated in `own`, those from a uses or augment
    in `parent` -/
def condsHold (conds : List Cond) (ownS : List S) (ownD : List D) (parS : List S) (parD : List D) : Bool :=
  conds.all fun c => if c.parentCtx then holdsIn c.e parS parD else holdsIn c.e ownS ownD

mutual
  /-- the read of one child of the body (ss, ds): a leaf evaluates its conditions in the body that holds
      it, a container / list entry its own in itself and the inherited ones in the body that holds it -/
  def readNode (ss : List S) (ds : List D) : S → D → D
    | .leaf _ cs, .leaf v => if condsHold cs ss ds ss ds then .leaf v else .leaf none
    | .cont _ cs ks, .cont (some b) =>
      if condsHold cs ks b ss ds then .cont (some (readBody ks b)) else .cont none
    | .list _ cs ks, .list rows =>
      .list ((rows.filter fun r => condsHold cs ks r ss ds).map fun r => readBody ks r)
    | _, d => d
  def readBody : List S → List D → List D
    | ss, ds => readKids ss ds ss ds
  /-- the children `ss'` / `ds'` (a tail of the body) read in the context of the whole body -/
  def readKids (ss : List S) (ds : List D) : List S → List D → List D
    | s :: ss', d :: ds' => readNode ss ds s d :: readKids ss ds ss' ds'
    | _, ds' => ds'
end

/-- `?where=e` on a list: exactly the entries for which e holds, in order -/
def whereRows (e : Expr) (ks : List S) (rows : List (List D)) : List (List D) :=
  rows.filter fun r => holdsIn e ks r

/-- `Find(list?where=e)` read: the entries that are visible (the list's own conditions) and satisfy e,
    each read with the conditions inside it -/
def whereRead (e : Expr) (ss : List S) (ds : List D) (listName : String) : List (List D) :=
  match lookup listName ss ds with
  | some (.list _ cs ks, .list rows) =>
    ((rows.filter fun r => condsHold cs ks r ss ds).filter fun r => holdsIn e ks r).map fun r => readBody ks r
  | _ => []

/-- `?filter=e` on a notification stream: exactly the events for which e holds, in order -/
def filterEvents (e : Expr) (ks : List S) (events : List (List D)) : List (List D) :=
  events.filter fun ev => holdsIn e ks ev

end YangVerif.XP
