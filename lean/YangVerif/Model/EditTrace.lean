/-
  Model of the begin/end bracket structure of an edit (C12):
  node/edit.go `editor.enter` (beginEdit, deferred endEdit), node/selection.go
  `beginEdit / endEdit` (bubbling to the ancestors for the edit root) and `Delete`.

  A *scenario* is what a fault-free run does, as a tree: every `enter` is a group of node ids
  (the node, then — for the edit root — its ancestors) around a sequence of steps; a step is a
  plain node callback (Child, Next, Field, Choose) or a nested `enter`.  `run` replays the
  scenario with callback number `k` (1-based) failing.
-/
namespace YangVerif.EditTrace

abbrev Id := String

inductive Ev
  | beginOk (x : Id) | beginFail (x : Id)
  | endOk (x : Id) | endFail (x : Id)
  | callOk (l : String) | callFail (l : String)
deriving DecidableEq, Repr

mutual
  inductive Scn
    | mk (ids : List Id) (steps : List Step)
  inductive Step
    | call (label : String)
    | sub (s : Scn)
end

/-- result of a piece of a run: trace segment, callbacks issued so far, success -/
structure Out where
  trace : List Ev
  n : Nat
  ok : Bool
deriving Repr

/-- does callback number n+1 fail? -/
def fails (k n : Nat) : Bool := n + 1 == k

/-- `EndEdit` for every node in `ids`, all of them, whatever fails -/
def endAll (k : Nat) : Nat → List Id → Out
  | n, [] => ⟨[], n, true⟩
  | n, x :: r =>
    let rest := endAll k (n + 1) r
    if fails k n then ⟨.endFail x :: rest.trace, rest.n, false⟩
    else ⟨.endOk x :: rest.trace, rest.n, rest.ok⟩

/-- `BeginEdit` for the node and (bubbling) its ancestors; when one fails, the ones already begun
    (`begun`, in the order they were begun) are told that the edit ended -/
def beginAll (k : Nat) : Nat → List Id → List Id → Out
  | n, [], _ => ⟨[], n, true⟩
  | n, x :: r, begun =>
    if fails k n then
      let e := endAll k (n + 1) begun
      ⟨.beginFail x :: e.trace, e.n, false⟩
    else
      let rest := beginAll k (n + 1) r (begun ++ [x])
      ⟨.beginOk x :: rest.trace, rest.n, rest.ok⟩

mutual
  /-- editor.enter -/
  def runScn (k : Nat) : Nat → Scn → Out
    | n, .mk ids steps =>
      let b := beginAll k n ids []
      if !b.ok then b else
      let body := runSteps k b.n steps
      let e := endAll k body.n ids            -- deferred: runs on every exit path
      ⟨b.trace ++ body.trace ++ e.trace, e.n, body.ok && e.ok⟩
  /-- the loop over the schema children: the first failure ends it -/
  def runSteps (k : Nat) : Nat → List Step → Out
    | n, [] => ⟨[], n, true⟩
    | n, .call l :: r =>
      if fails k n then ⟨[.callFail l], n + 1, false⟩
      else
        let rest := runSteps k (n + 1) r
        ⟨.callOk l :: rest.trace, rest.n, rest.ok⟩
    | n, .sub s :: r =>
      let o := runScn k n s
      if !o.ok then o else
      let rest := runSteps k o.n r
      ⟨o.trace ++ rest.trace, rest.n, rest.ok⟩
end

/-- the whole API call -/
def run (s : Scn) (k : Nat) : Out := runScn k 0 s

/-! ### what the property says about a trace -/

/-- running balance of node x: +1 for a successful Begin, −1 for an End (successful or not: the
    node was told); `none` as soon as an End arrives for a node that is not open -/
def bal (x : Id) : List Ev → Nat → Option Nat
  | [], b => some b
  | .beginOk y :: r, b => bal x r (if y = x then b + 1 else b)
  | .endOk y :: r, b => if y = x then (if b = 0 then none else bal x r (b - 1)) else bal x r b
  | .endFail y :: r, b => if y = x then (if b = 0 then none else bal x r (b - 1)) else bal x r b
  | _ :: r, b => bal x r b

def isFail : Ev → Bool
  | .beginFail _ | .endFail _ | .callFail _ => true
  | _ => false

def isEnd : Ev → Bool
  | .endOk _ | .endFail _ => true
  | _ => false

/-- after the first failing callback only End notifications follow -/
def onlyEndsAfterFailure : List Ev → Bool
  | [] => true
  | e :: r => if isFail e then r.all isEnd else onlyEndsAfterFailure r

/-! ### the pinned tree: a failing Begin left the nodes already begun without End, a failing End
     stopped the bubbling -/

def endAllL (k : Nat) : Nat → List Id → Out
  | n, [] => ⟨[], n, true⟩
  | n, x :: r =>
    if fails k n then ⟨[.endFail x], n + 1, false⟩
    else
      let rest := endAllL k (n + 1) r
      ⟨.endOk x :: rest.trace, rest.n, rest.ok⟩

def beginAllL (k : Nat) : Nat → List Id → Out
  | n, [] => ⟨[], n, true⟩
  | n, x :: r =>
    if fails k n then ⟨[.beginFail x], n + 1, false⟩
    else
      let rest := beginAllL k (n + 1) r
      ⟨.beginOk x :: rest.trace, rest.n, rest.ok⟩

end YangVerif.EditTrace
