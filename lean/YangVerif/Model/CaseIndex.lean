/-
  Model of what a choice leaves behind when if-features take nodes out of its cases (C11):
  meta/resolver.go `enter` for a choice (`enterCase` for every case: the nodes whose if-feature is false are
  left out; a case that stands for a node written directly in the choice goes with its node) and the name
  index of the node that holds the choice (core_gen.go `addDataDefinitionWithoutOwning`: the nodes of the
  cases are reachable by their own names, choice and case are not steps of a data path).
  If-feature expressions are already evaluated here (their meaning is `IfFeature.sem`).
-/
namespace YangVerif.CaseIndex

structure CNode where
  name : String
  on : Bool            -- the conjunction of the node's if-feature statements under the configuration
deriving DecidableEq, Repr

structure Case where
  name : String
  implied : Bool       -- written as a node directly in the choice (RFC 7950 7.9.2 shorthand)
  nodes : List CNode
deriving Repr

def namesOf (cs : List Case) : List String := cs.flatMap fun c => c.nodes.map (·.name)

def enterCase (c : Case) : Case := { c with nodes := c.nodes.filter (·.on) }

/-- the cases after `enter`: feature-disabled nodes are gone, and so is a shorthand case whose node is gone -/
def enterChoice (cs : List Case) : List Case :=
  (cs.map enterCase).filter fun c => !(c.implied && c.nodes.isEmpty)

/-- the holder's name index, rebuilt from the cases as they are after `enter` (reindexChoiceHolder) -/
def holderIndex (cs : List Case) : List String := namesOf (enterChoice cs)

/-- the pinned tree: the holder indexed the cases as written, before any if-feature was looked at, and an
    emptied shorthand case stayed -/
def holderIndexLegacy (cs : List Case) : List String := namesOf cs
def enterChoiceLegacy (cs : List Case) : List Case := cs.map enterCase

end YangVerif.CaseIndex
