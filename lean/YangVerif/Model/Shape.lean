/-
  Model of the shape verdict on a JSON edit document (C13): nodeutil/json_rdr.go JsonContainerReader /
  JsonListReader as driven by the editor — a container wants an object, a list an array of objects each
  holding its key leaves, a leaf a scalar (a leaf-list an array of scalars, or one scalar).  Members the
  schema does not know are not looked at.
-/
import YangVerif.Model.Json
namespace YangVerif.Shape
open YangVerif.Json

inductive SS
  | leaf (name : String) (isList : Bool)
  | anyLeaf (name : String)              -- type empty: whatever is there sets it
  | cont (name : String) (kids : List SS)
  | list (name : String) (keys : List String) (kids : List SS)
deriving Repr, Inhabited

def SS.name : SS → String
  | .leaf n _ => n | .anyLeaf n => n | .cont n _ => n | .list n _ _ => n

def isScalar : JVal → Bool
  | .str _ => true | .num _ => true | .lit t => t != "null" | _ => false

def isNull : JVal → Bool
  | .lit t => t == "null" | _ => false

def member (n : String) : List (String × JVal) → Option JVal
  | [] => none
  | (m, v) :: r => if m = n then some v else member n r

mutual
  /-- true = the document has the shape the schema asks for at this node -/
  def okNode : SS → JVal → Bool
    | .leaf _ false, v => isScalar v || isNull v
    | .leaf _ true, .arr items => items.all isScalar
    | .leaf _ true, v => isScalar v || isNull v
    | .anyLeaf _, _ => true
    | .cont _ kids, .obj ms => okBody kids ms
    | .cont _ _, _ => false
    | .list _ keys kids, .arr items => okEntries keys kids items
    | .list _ _ _, _ => false
  def okBody : List SS → List (String × JVal) → Bool
    | [], _ => true
    | s :: ss, ms => (match member s.name ms with
        | none => true
        | some v => okNode s v) && okBody ss ms
  def okEntries (keys : List String) : List SS → List JVal → Bool
    | _, [] => true
    | kids, .obj ms :: r => keys.all (fun k => match member k ms with | some v => isScalar v | none => false) && okBody kids ms && okEntries keys kids r
    | _, _ :: _ => false
end

end YangVerif.Shape

/-
  The verdict on a request path (node/path_slice.go parseUrlPath): segments are looked up level by level in the
  schema; a step below a leaf, a name the level does not have, keys on something that is not a list, and fewer key
  components than the list has keys are refused.  Surplus key components are ignored (as the code does).
-/
namespace YangVerif.Shape

structure Seg where
  name : String
  keys : List String        -- the key components written behind '='; `hasKey` tells "=…" was written at all
  hasKey : Bool
deriving Repr, Inhabited

inductive PV | ok | refused
deriving DecidableEq, Repr, Inhabited

def findKid (n : String) : List SS → Option SS
  | [] => none
  | s :: r => if s.name = n then some s else findKid n r

/-- `cur` = the children of the definition the path has reached; `none` = it reached a leaf -/
def pathVerdict : Option (List SS) → List Seg → PV
  | _, [] => .ok
  | none, _ :: _ => .refused                                   -- a step below a leaf
  | some kids, sg :: rest =>
    match findKid sg.name kids with
    | none => .refused                                          -- unknown name
    | some (.leaf _ _) => if sg.hasKey then .refused else pathVerdict none rest
    | some (.anyLeaf _) => if sg.hasKey then .refused else pathVerdict none rest
    | some (.cont _ ks) => if sg.hasKey then .refused else pathVerdict (some ks) rest
    | some (.list _ keys ks) =>
      if sg.hasKey && sg.keys.length ≠ keys.length then .refused   -- not one component per key leaf
      else pathVerdict (some ks) rest

end YangVerif.Shape
