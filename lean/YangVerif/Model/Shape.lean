/-
  Model of the shape verdict on a JSON edit document (C13): nodeutil/json_rdr.go JsonContainerReader /
  JsonListReader as driven by the editor — a container wants an object, a list an array of objects each
  holding its key leaves, a leaf a scalar (a leaf-list an array of scalars, or one scalar).  Members the
  schema does not know are not looked at.
-/
import YangVerif.Model.Json
namespace YangVerif.Shape
open YangVerif.Json

inductive SS
  | leaf (name : String) (isList : Bool)
  | anyLeaf (name : String)              -- type empty: whatever is there sets it
  | cont (name : String) (kids : List SS)
  | list (name : String) (keys : List String) (kids : List SS)
deriving Repr, Inhabited

def SS.name : SS → String
  | .leaf n _ => n | .anyLeaf n => n | .cont n _ => n | .list n _ _ => n

def isScalar : JVal → Bool
  | .str _ => true | .num _ => true | .lit t => t != "null" | _ => false

def isNull : JVal → Bool
  | .lit t => t == "null" | _ => false

def member (n : String) : List (String × JVal) → Option JVal
  | [] => none
  | (m, v) :: r => if m = n then some v else member n r

mutual
  /-- true = the document has the shape the schema asks for at this node -/
  def okNode : SS → JVal → Bool
    | .leaf _ false, v => isScalar v || isNull v
    | .leaf _ true, .arr items => items.all isScalar
    | .leaf _ true, v => isScalar v || isNull v
    | .anyLeaf _, _ => true
    | .cont _ kids, .obj ms => okBody kids ms
    | .cont _ _, _ => false
    | .list _ keys kids, .arr items => okEntries keys kids items
    | .list _ _ _, _ => false
  def okBody : List SS → List (String × JVal) → Bool
    | [], _ => true
    | s :: ss, ms => (match member s.name ms with
        | none => true
        | some v => okNode s v) && okBody ss ms
  def okEntries (keys : List String) : List SS → List JVal → Bool
    | _, [] => true
    | kids, .obj ms :: r => keys.all (fun k => match member k ms with | some v => isScalar v | none => false) && okBody kids ms && okEntries keys kids r
    | _, _ :: _ => false
end

end YangVerif.Shape
