/-
  Model of choice/case handling during upsert and read (C09):
  node/edit.go `clearOnDifferentChoiceCase / clearChoiceCase`,
  node/container_meta_list.go `lookAhead` (descend only into the case returned by Choose),
  and the store's `Choose` contract (first case, in sorted case-ident order, holding any data).

  Data is positional like in Model/Data.lean; a choice holds one body per case.
-/
set_option linter.unusedVariables false
namespace YangVerif.Choice

abbrev Val := String

inductive Schema
  | leaf (dflt : Option Val)
  | cont (kids : List Schema)
  | choice (cases : List (List Schema))
deriving Repr, Inhabited

inductive Data
  | leaf (v : Option Val)
  | cont (body : Option (List Data))
  | choice (cases : List (List Data))
deriving Repr, Inhabited

mutual
  def emptyOf : Schema → Data
    | .leaf _ => .leaf none
    | .cont _ => .cont none
    | .choice cs => .choice (emptyCases cs)
  def emptyBody : List Schema → List Data
    | [] => []
    | s :: r => emptyOf s :: emptyBody r
  def emptyCases : List (List Schema) → List (List Data)
    | [] => []
    | c :: r => emptyBody c :: emptyCases r
end

mutual
  /-- the node holds something -/
  def hasData : Data → Bool
    | .leaf v => v.isSome
    | .cont b => b.isSome
    | .choice cs => casesHaveData cs
  def bodyHasData : List Data → Bool
    | [] => false
    | d :: r => hasData d || bodyHasData r
  def casesHaveData : List (List Data) → Bool
    | [] => false
    | c :: r => bodyHasData c || casesHaveData r
end

/-- `Choose`: index of the first case that holds any data -/
def chooseIdx : List (List Data) → Option Nat
  | [] => none
  | c :: r => if bodyHasData c then some 0 else (chooseIdx r).map (· + 1)

/-- number of cases holding data -/
def casesWithData : List (List Data) → Nat
  | [] => 0
  | c :: r => (if bodyHasData c then 1 else 0) + casesWithData r

mutual
  /-- **the invariant**: every choice, at every depth, has at most one case holding data -/
  def oneCase : Data → Bool
    | .leaf _ => true
    | .cont none => true
    | .cont (some b) => oneCaseBody b
    | .choice cs => decide (casesWithData cs ≤ 1) && oneCaseCases cs
  def oneCaseBody : List Data → Bool
    | [] => true
    | d :: r => oneCase d && oneCaseBody r
  def oneCaseCases : List (List Data) → Bool
    | [] => true
    | c :: r => oneCaseBody c && oneCaseCases r
end

mutual
  def conforms : Schema → Data → Bool
    | .leaf _, .leaf _ => true
    | .cont _, .cont none => true
    | .cont ks, .cont (some b) => conformsBody ks b
    | .choice cs, .choice ds => conformsCases cs ds
    | _, _ => false
  def conformsBody : List Schema → List Data → Bool
    | [], [] => true
    | s :: ss, d :: ds => conforms s d && conformsBody ss ds
    | _, _ => false
  def conformsCases : List (List Schema) → List (List Data) → Bool
    | [], [] => true
    | c :: cs, d :: ds => conformsBody c d && conformsCases cs ds
    | _, _ => false
end

/-! ### the editor in upsert mode

  For a choice the editor asks the *source* which case is chosen and walks only that case.
  Before a node of case i is written the target is asked for its chosen case; if that is a
  different one it is cleared completely (leaves cleared, containers deleted).  After
  `fix: upsert clears the other case of every enclosing choice` this happens for every choice
  the written node sits in, so at each level: clear all other cases, then merge into case i. -/

mutual
  def edit (new : Bool) : Schema → Data → Data → Data
    | .leaf d, .leaf sv, t =>
      match (match sv with | some v => some v | none => if new then d else none) with
      | some v => .leaf (some v)
      | none => t
    | .cont _, .cont none, t => t
    | .cont ks, .cont (some sb), .cont (some tb) => .cont (some (editKids false ks sb tb))
    | .cont ks, .cont (some sb), _ => .cont (some (editKids true ks sb (emptyBody ks)))
    | .choice cs, .choice sbs, .choice tbs => .choice (editCases new cs sbs tbs (chooseIdx sbs))
    | _, _, t => t
  def editKids (new : Bool) : List Schema → List Data → List Data → List Data
    | s :: ss, d :: ds, t :: ts => edit new s d t :: editKids new ss ds ts
    | _, _, ts => ts
  /-- walk the cases: the chosen one (index counts down to 0) is merged, every other is cleared;
      when the source has no case with data nothing is written and nothing is cleared -/
  def editCases (new : Bool) : List (List Schema) → List (List Data) → List (List Data) → Option Nat → List (List Data)
    | _, _, ts, none => ts
    | c :: cs, s :: ss, t :: ts, some 0 => editKids new c s t :: clearCases cs ts
    | c :: cs, _ :: ss, _ :: ts, some (i + 1) => emptyBody c :: editCases new cs ss ts (some i)
    | _, _, ts, _ => ts
  def clearCases : List (List Schema) → List (List Data) → List (List Data)
    | c :: cs, _ :: ts => emptyBody c :: clearCases cs ts
    | _, ts => ts
end

/-- a read is an upsert into an empty target (the read walk is the same `enter` loop) -/
def readOut (ks : List Schema) (body : List Data) : List Data := editKids false ks body (emptyBody ks)

/-! ### the pinned tree: only the innermost choice of the written node was looked at, so an outer
     choice was cleared only when a *direct* child of its case was written -/

def directData : List Data → Bool
  | [] => false
  | .leaf v :: r => v.isSome || directData r
  | .cont b :: r => b.isSome || directData r
  | .choice _ :: r => directData r

mutual
  def editL (new : Bool) : Schema → Data → Data → Data
    | .leaf d, .leaf sv, t =>
      match (match sv with | some v => some v | none => if new then d else none) with
      | some v => .leaf (some v)
      | none => t
    | .cont _, .cont none, t => t
    | .cont ks, .cont (some sb), .cont (some tb) => .cont (some (editKidsL false ks sb tb))
    | .cont ks, .cont (some sb), _ => .cont (some (editKidsL true ks sb (emptyBody ks)))
    | .choice cs, .choice sbs, .choice tbs => .choice (editCasesL new cs sbs tbs (chooseIdx sbs))
    | _, _, t => t
  def editKidsL (new : Bool) : List Schema → List Data → List Data → List Data
    | s :: ss, d :: ds, t :: ts => editL new s d t :: editKidsL new ss ds ts
    | _, _, ts => ts
  def editCasesL (new : Bool) : List (List Schema) → List (List Data) → List (List Data) → Option Nat → List (List Data)
    | _, _, ts, none => ts
    | c :: cs, s :: ss, t :: ts, some 0 =>
      editKidsL new c s t :: (if directData s then clearCases cs ts else ts)
    | c :: cs, s :: ss, t :: ts, some (i + 1) =>
      -- whether the earlier case is cleared depends on the chosen case having direct data
      (match ss[i]? with
       | some chosen => if directData chosen then emptyBody c else t
       | none => t) :: editCasesL new cs ss ts (some i)
    | _, _, ts, _ => ts
end

end YangVerif.Choice
