/-
  Model of node/value.go membership front end (enum, bits, identityref, union) — C05/C10.
-/
namespace YangVerif.Member

/-- toEnum: by declared label or declared id -/
def enumByLabel (decl : List (String × Int)) (label : String) : Option (String × Int) :=
  decl.find? (·.1 == label)
def enumById (decl : List (String × Int)) (id : Int) : Option (String × Int) :=
  decl.find? (·.2 == id)

/-- toBits on a list of names (after the fix): every name must be declared; "" is ignored -/
def bitsByNames (decl : List (String × Nat)) (names : List String) : Option (List String) :=
  if names.all (fun n => n == "" || decl.any (·.1 == n)) then some (names.filter (· ≠ "")) else none

/-- the behaviour before the fix: undeclared names silently dropped -/
def bitsByNamesLegacy (decl : List (String × Nat)) (names : List String) : Option (List String) :=
  some (names.filter fun n => decl.any (·.1 == n))

/-- toBits on a number: the set positions must all be declared -/
def bitsByNumber (decl : List (String × Nat)) (x : Nat) : Option (List String) :=
  let hit := decl.filter fun d => x.testBit d.2
  let mask := hit.foldl (fun acc d => acc ||| (1 <<< d.2)) 0
  if mask == x then some (hit.map (·.1)) else none

/-- toIdentRef: optional `prefix:` removed, then the name must be in the derived closure -/
def stripPrefix (s : String) : String :=
  match s.splitOn ":" with
  | [x] => x
  | p :: rest => if p == "" then s else ":".intercalate rest
  | [] => s
def identByName (derived : List String) (s : String) : Option String :=
  let n := stripPrefix s
  if derived.contains n then some n else none

/-- toIdentRef with the bases of the type: RFC 7950 9.10.2, a value is derived from every base; `closures` holds,
    per base, the identities derived from it (directly or not - the base itself is not among them) -/
def identOfBases (closures : List (List String)) (n : String) : Option String :=
  if !closures.isEmpty && closures.all (·.contains n) then some n else none
def identByBases (closures : List (List String)) (s : String) : Option String :=
  identOfBases closures (stripPrefix s)

/-- ConvOneOf: first member that converts -/
def unionFirst {α β : Type} (members : List (α → Option β)) (v : α) : Option β :=
  members.findSome? (· v)

end YangVerif.Member
