/-
  An edit addressed at a list entry (Find("l=k").UpsertFrom(doc)): node/edit.go, editor.keepsEntryKey.
  The rows of `Data` carry their key next to their body; this file relates the two.
-/
import YangVerif.Model.Data
namespace YangVerif.Data

/-- the key an entry body shows: the values of its first `n` children, the key leaves -/
def shownKey : Nat → List Data → Option Key
  | 0, _ => some []
  | n + 1, .leaf (some v) :: r => (shownKey n r).map (v :: ·)
  | _ + 1, _ => none

/-- the guard: a document addressed at the entry filed under `k` may leave a key leaf out or repeat it -/
def keepsKey : Key → List Data → Bool
  | [], _ => true
  | _ :: _, [] => true
  | k :: ks, .leaf (some v) :: r => v == k && keepsKey ks r
  | _ :: ks, _ :: r => keepsKey ks r

/-- the first `n` children of the list's schema are its key leaves -/
def leadingLeaves : Nat → List Schema → Bool
  | 0, _ => true
  | n + 1, .leaf _ :: r => leadingLeaves n r
  | _ + 1, _ => false

/-- the edit of one entry: refused when the document names another key, otherwise the merge -/
def editEntry (ks : List Schema) (k : Key) (doc body : List Data) : Except Err (List Data) :=
  if keepsKey k doc then .ok (mergeKids ks doc body) else .error .conflict

end YangVerif.Data
