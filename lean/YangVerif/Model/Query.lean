/-
  Model of the read constraints (C07): node/selection.go BuildConstraints, node/constraints.go
  (checks run in (priority, weight) order, first veto wins), node/max_depth.go, content_param.go,
  fields_matcher.go + path_matcher.go (expression parser and matcher), list_range.go,
  with_defaults_param.go — and of the read they constrain, as a projection of a data tree.
-/
namespace YangVerif.Query

abbrev Path := List String
abbrev Val := String

/-! ### path expressions: `a/b;c(d;e)f` -/

inductive PTok | seg (s : String) | lp | rp | semi | slash
deriving DecidableEq, Repr, Inhabited

/-- the three list operations of PathMatchExpression -/
def addSegment (paths : List Path) (s : String) : List Path :=
  if paths.isEmpty then [[s]] else paths.map (· ++ [s])

def product (a b : List Path) : List Path := a.flatMap fun d => b.map fun s => d ++ s

def expandPaths (paths sub : List Path) : List Path :=
  if sub.isEmpty then paths else product (if paths.isEmpty then [[]] else paths) sub

/-- parsex: `acc` = alternatives finished so far (e.paths), `cur` = the one being read (s.paths).
    Result: the paths and the unread tokens; none = unbalanced parentheses. -/
def parsex : Nat → Nat → List Path → List Path → List PTok → Option (List Path × List PTok)
  | 0, _, _, _, _ => none
  | _ + 1, depth, acc, cur, [] => if depth = 0 then some (acc ++ cur, []) else none
  | f + 1, depth, acc, cur, .seg s :: r => parsex f depth acc (addSegment cur s) r
  | f + 1, depth, acc, cur, .slash :: r => parsex f depth acc cur r
  | f + 1, depth, acc, cur, .semi :: r => parsex f depth (acc ++ cur) [] r
  | _ + 1, depth, acc, cur, .rp :: r => if depth = 0 then none else some (acc ++ cur, r)
  | f + 1, depth, acc, cur, .lp :: r =>
    match parsex f (depth + 1) [] [] r with
    | some (sub, r') => parsex f depth acc (expandPaths cur sub) r'
    | none => none

def parseExpr (toks : List PTok) : Option (List Path) :=
  match parsex (toks.length + 1) 0 [] [] toks with
  | some (ps, _) => some ps
  | none => none

/-- the grammar: alternatives of sequences of idents and parenthesised groups -/
inductive Atom
  | seg (s : String)
  | group (alts : List (List Atom))
deriving Repr, Inhabited

/-- product in which a side that names nothing is neutral -/
def combine (a b : List Path) : List Path :=
  if a.isEmpty then b else if b.isEmpty then a else product a b

mutual
  /-- the paths an atom stands for; a group that names nothing is skipped -/
  def denoteAtom : Atom → List Path
    | .seg s => [[s]]
    | .group alts => denoteAlts alts
  /-- a sequence: every combination, in order -/
  def denoteTerm : List Atom → List Path
    | [] => []
    | a :: r => combine (denoteAtom a) (denoteTerm r)
  def denoteAlts : List (List Atom) → List Path
    | [] => []
    | t :: r => denoteTerm t ++ denoteAlts r
end

mutual
  def renderAtom : Atom → List PTok
    | .seg s => [.seg s]
    | .group alts => .lp :: renderAlts alts ++ [.rp]
  /-- atoms separated by `/` -/
  def renderTerm : List Atom → List PTok
    | [] => []
    | [a] => renderAtom a
    | a :: b :: r => renderAtom a ++ .slash :: renderTerm (b :: r)
  def renderAlts : List (List Atom) → List PTok
    | [] => []
    | [t] => renderTerm t
    | t :: u :: r => renderTerm t ++ .semi :: renderAlts (u :: r)
end

/-! ### matching a node's path (relative to the base of the read) against the paths -/

/-- PathMatchExpression.match: walks the relative path from its end (index n-1 down to 0) and compares
    where the selector has a segment; `relRev` is the relative path reversed -/
def matchWalk (segs : Path) : List String → Bool
  | [] => true
  | x :: rest => (if rest.length < segs.length then x == segs.getD rest.length "" else true) && matchWalk segs rest

def selected (segs rel : Path) : Bool := matchWalk segs rel.reverse && segs.length ≤ rel.length
def leadsTo (segs rel : Path) : Bool := matchWalk segs rel.reverse && rel.length < segs.length

/-- PathMatches: no path at all selects everything -/
def pathMatches (paths : List Path) (rel : Path) : Bool :=
  paths.isEmpty || paths.any fun segs => segs.isEmpty || selected segs rel
def pathLeadsTo (paths : List Path) (rel : Path) : Bool := paths.any fun segs => leadsTo segs rel
def pathMatchesExactly (paths : List Path) (rel : Path) : Bool :=
  if paths.isEmpty then rel.isEmpty else paths.any fun segs => segs.length == rel.length && selected segs rel

/-! ### schema, data, query -/

inductive QS
  | leaf (name : String) (config : Bool) (dflt : Option Val)
  | cont (name : String) (config : Bool) (kids : List QS)
  | list (name : String) (config : Bool) (kids : List QS)
deriving Repr, Inhabited

inductive QD
  | leaf (v : Option Val)
  | cont (body : Option (List QD))
  | list (rows : List (List QD))
deriving Repr, Inhabited

inductive Content | all | config | nonconfig
deriving DecidableEq, Repr, Inhabited

structure Query where
  depth : Option Nat := none                          -- `depth=n`, n ≥ 1
  content : Content := .all
  fields : Option (List Path) := none
  xfields : Option (List Path) := none
  trim : Bool := false                                 -- with-defaults=trim
  range : Option (List Path × Nat × Option Nat) := none -- fc.range=sel!start-[end]
deriving Repr, Inhabited

/-- depth (MaxDepth.checkPathLen): the parent's distance from the base must stay below the limit -/
def depthOK (q : Query) (rel : Path) : Bool :=
  match q.depth with | none => true | some n => decide (rel.length ≤ n)
/-- fields (FieldsMatcher, not reversed): named, below a named node, or on the way to one -/
def fieldsOK (q : Query) (rel : Path) : Bool :=
  match q.fields with | none => true | some ps => pathMatches ps rel || pathLeadsTo ps rel
/-- fc.xfields (FieldsMatcher, reversed) -/
def xfieldsOK (q : Query) (rel : Path) : Bool :=
  match q.xfields with | none => true | some ps => !pathMatches ps rel
/-- content (ContentConstraint): containers pass under nonconfig, they may hold operational leaves -/
def contentOK (q : Query) (isLeaf : Bool) (config : Bool) : Bool :=
  match q.content with
  | .all => true
  | .config => config
  | .nonconfig => if isLeaf then !config else true

/-- the checks a container / list / field request runs, one per parameter, in the order
    node/constraints.go sorts them (priority, then weight): depth (10,50), fields (10,50),
    fc.xfields (10,50), content (10,70); `true` = proceed -/
def preChecks (q : Query) (isLeaf : Bool) (config : Bool) (rel : Path) : List Bool :=
  [depthOK q rel, fieldsOK q rel, xfieldsOK q rel, contentOK q isLeaf config]

/-- first veto wins -/
def firstVeto : List Bool → Bool
  | [] => true
  | b :: r => if b then firstVeto r else false

def visible (q : Query) (isLeaf : Bool) (config : Bool) (rel : Path) : Bool :=
  firstVeto (preChecks q isLeaf config rel)

/-- WithDefaults.CheckFieldPostConstraints: a value equal to the schema default is dropped -/
def trimmed (q : Query) (dflt : Option Val) (v : Option Val) : Option Val :=
  if q.trim then (match dflt, v with
    | some d, some x => if x = d then none else some x
    | _, v => v) else v

/-- ListRange: rows start..end (both included) of the lists the selector names exactly -/
def window (q : Query) (rel : Path) (rows : List α) : List α :=
  match q.range with
  | none => rows
  | some (ps, s, e) =>
    if pathMatchesExactly ps rel then
      match e with
      | none => rows.drop s
      | some e => (rows.drop s).take (e + 1 - s)
    else rows

/-- the value a read yields for a leaf: below the target every node is new to the receiver, and the
    editor asks new nodes' unset leaves for their schema default (node/edit.go, useDefault) -/
def eff (useDflt : Bool) (dflt : Option Val) (v : Option Val) : Option Val :=
  match v with
  | some x => some x
  | none => if useDflt then dflt else none

mutual
  /-- the read of one schema child under a parent whose relative path is `rel` -/
  def projNode (q : Query) (ud : Bool) (rel : Path) : QS → QD → QD
    | .leaf n cfg d, .leaf v =>
      if visible q true cfg (rel ++ [n]) then .leaf (trimmed q d (eff ud d v)) else .leaf none
    | .cont n cfg ks, .cont (some b) =>
      if visible q false cfg (rel ++ [n]) then .cont (some (projBody q true (rel ++ [n]) ks b)) else .cont none
    | .list n cfg ks, .list rows =>
      if visible q false cfg (rel ++ [n]) then .list ((window q (rel ++ [n]) rows).map fun b => projBody q true (rel ++ [n]) ks b)
      else .list []
    | _, d => d
  def projBody (q : Query) (ud : Bool) (rel : Path) : List QS → List QD → List QD
    | s :: ss, d :: ds => projNode q ud rel s d :: projBody q ud rel ss ds
    | _, ds => ds
end

/-- a read whose target is a container, a list entry or the module: its own leaves are not new -/
def projTarget (q : Query) (ks : List QS) (b : List QD) : List QD := projBody q false [] ks b

/-- a read whose target is a list: the window applies to the target itself (relative path []) -/
def projTargetList (q : Query) (ks : List QS) (rows : List (List QD)) : List (List QD) :=
  (window q [] rows).map fun b => projBody q true [] ks b

/-! ### independent descriptions of single parameters (what the theorems compare with) -/

mutual
  /-- keep what lies at most `n` levels below (a list and its entries are one level) -/
  def cutNode : Nat → Bool → QS → QD → QD
    | 0, _, .leaf _ _ _, .leaf _ => .leaf none
    | 0, _, .cont _ _ _, .cont (some _) => .cont none
    | 0, _, .list _ _ _, .list _ => .list []
    | _ + 1, ud, .leaf _ _ d, .leaf v => .leaf (eff ud d v)
    | n + 1, _, .cont _ _ ks, .cont (some b) => .cont (some (cutBody n true ks b))
    | n + 1, _, .list _ _ ks, .list rows => .list (rows.map fun b => cutBody n true ks b)
    | _, _, _, d => d
  def cutBody : Nat → Bool → List QS → List QD → List QD
    | n, ud, s :: ss, d :: ds => cutNode n ud s d :: cutBody n ud ss ds
    | _, _, _, ds => ds
end

end YangVerif.Query
