/-
  Model of the path text codec (C08): node/path.go `Path.String/toBuffer`,
  node/value.go `EncodeKey`, node/path_slice.go `parseUrlPath` (splitting and unescaping;
  the schema lookup is a parameter), net/url `QueryEscape/QueryUnescape` on bytes.
-/
namespace YangVerif.Path

abbrev Bytes := List Nat        -- every element < 256

def isUnreserved (b : Nat) : Bool :=
  (65 ≤ b && b ≤ 90) || (97 ≤ b && b ≤ 122) || (48 ≤ b && b ≤ 57) || b == 45 || b == 95 || b == 46 || b == 126

/-- "0123456789ABCDEF"[n] -/
def hexUp (n : Nat) : Nat := if n < 10 then 48 + n else 55 + n

def unhex (c : Nat) : Option Nat :=
  if 48 ≤ c && c ≤ 57 then some (c - 48)
  else if 97 ≤ c && c ≤ 102 then some (c - 87)
  else if 65 ≤ c && c ≤ 70 then some (c - 55)
  else none

/-- url.QueryEscape on one byte -/
def escapeByte (b : Nat) : Bytes :=
  if isUnreserved b then [b] else if b == 32 then [43] else [37, hexUp (b / 16), hexUp (b % 16)]

def escape (bs : Bytes) : Bytes := bs.flatMap escapeByte

/-- url.QueryUnescape -/
def unescape : Bytes → Option Bytes
  | [] => some []
  | c :: rest =>
    if c == 37 then
      match rest with
      | h1 :: h2 :: r =>
        match unhex h1, unhex h2, unescape r with
        | some a, some b, some r' => some ((a * 16 + b) :: r')
        | _, _, _ => none
      | _ => none
    else if c == 43 then (unescape rest).map (32 :: ·)
    else (unescape rest).map (c :: ·)

/-- strings.Split(s, sep) for a one-byte separator -/
def splitOn (sep : Nat) : Bytes → List Bytes
  | [] => [[]]
  | c :: cs =>
    match splitOn sep cs with
    | [] => [[c]]
    | h :: t => if c == sep then [] :: h :: t else (c :: h) :: t

def join (sep : Nat) : List Bytes → Bytes
  | [] => []
  | [x] => x
  | x :: y :: r => x ++ sep :: join sep (y :: r)

/-- strings.Index(segment, "="): split at the first separator -/
def splitFirst (sep : Nat) : Bytes → Option (Bytes × Bytes)
  | [] => none
  | c :: cs => if c == sep then some ([], cs) else (splitFirst sep cs).map fun (a, b) => (c :: a, b)

structure Seg where
  ident : Bytes
  keys : List Bytes
deriving DecidableEq, Repr

/-- Path.toBuffer for one segment: ident, then "=" and the comma separated escaped keys -/
def renderSeg (s : Seg) : Bytes :=
  if s.keys.isEmpty then s.ident else s.ident ++ 61 :: join 44 (s.keys.map escape)

/-- Path.String -/
def renderPath (segs : List Seg) : Bytes := join 47 (segs.map renderSeg)

/-- the legacy renderer: keys written as they are -/
def renderSegLegacy (s : Seg) : Bytes :=
  if s.keys.isEmpty then s.ident else s.ident ++ 61 :: join 44 s.keys
def renderPathLegacy (segs : List Seg) : Bytes := join 47 (segs.map renderSegLegacy)

/-- one segment of parseUrlPath, before the schema lookup -/
def parseSeg (bs : Bytes) : Option Seg :=
  match splitFirst 61 bs with
  | some (a, b) =>
    match unescape a, (splitOn 44 b).mapM unescape with
    | some id, some ks => some ⟨id, ks⟩
    | _, _ => none
  | none => (unescape bs).map fun id => ⟨id, []⟩

/-- the segment loop: split on "/", stop at the first empty segment ("a/b/" = "a/b") -/
def parsePath (bs : Bytes) : Option (List Seg) :=
  ((splitOn 47 bs).takeWhile (fun s => !s.isEmpty)).mapM parseSeg

end YangVerif.Path
