/-
  Model of meta/core.go `IfFeature.Evaluate` / `ifFeatureEval.eval/next/eatws/pop/push`
  and meta/feature_set.go `supportedFeatures` (C11).

  The evaluator is ported one-to-one: a loop with a `greedy` flag, a boolean stack,
  nested calls for "(", "and", "not", "or".  Go recursion + loop becomes one
  function with fuel; `evaluate` supplies enough fuel (proved).
-/
namespace YangVerif.IfFeature

inductive Tok
  | lp | rp | and | or | not
  | feat (s : String)
deriving DecidableEq, Repr, Inhabited

/-! ### tokenizer: `next()` / `eatws()` — blanks separate, '(' and ')' are single tokens -/

def wordTok (w : List Char) : Tok :=
  let s := String.ofList w
  if s == "and" then .and else if s == "or" then .or else if s == "not" then .not else .feat s

/-- `cur` is the word being accumulated (reversed) -/
def tokenizeAux : List Char → List Char → List Tok
  | [], cur => if cur.isEmpty then [] else [wordTok cur.reverse]
  | c :: cs, cur =>
    if c == ' ' then
      (if cur.isEmpty then [] else [wordTok cur.reverse]) ++ tokenizeAux cs []
    else if c == '(' then
      (if cur.isEmpty then [] else [wordTok cur.reverse]) ++ .lp :: tokenizeAux cs []
    else if c == ')' then
      (if cur.isEmpty then [] else [wordTok cur.reverse]) ++ .rp :: tokenizeAux cs []
    else tokenizeAux cs (c :: cur)

def tokenize (s : String) : List Tok := tokenizeAux s.toList []

/-! ### the evaluator as it is now (after the `fix:` commits on if-feature)

  Every `eval` call tracks the values it has produced above `base := len(stack)`: none while an
  operand is expected, exactly one once an operator may follow; nested evaluations must
  yield exactly one value.  So the part of the Go stack a call can see is an `Option Bool`. -/

abbrev St := List Tok × Option Bool     -- remaining input, value produced by this group so far

/-- the `switch tok` of one loop iteration; `rec` is the nested `y.eval(..)` started with a
    fresh base -/
def switchF (rec : Bool → List Tok → Option St) (env : String → Bool)
    (t : Tok) (r : List Tok) (cur : Option Bool) : Option St :=
  match t, cur with
  | .lp, none =>
    match rec false r with
    | some (.rp :: r2, some v) => some (r2, some v)
    | _ => none
  | .and, some a =>
    match rec true r with
    | some (r1, some b) => some (r1, some (a && b))
    | _ => none
  | .or, some a =>
    match rec false r with
    | some (r1, some b) => some (r1, some (a || b))
    | _ => none
  | .not, none =>
    match rec true r with
    | some (r1, some b) => some (r1, some (!b))
    | _ => none
  | .feat s, none => some (r, some (env s))
  | _, _ => none

/-- `eval(greedy)` started at a fresh base, continuing with `cur` produced so far -/
def evalF (env : String → Bool) : Nat → Bool → List Tok → Option Bool → Option St
  | 0, _, _, _ => none
  | _ + 1, _, [], cur => some ([], cur)
  | f + 1, g, t :: r, cur =>
    if t = .rp then some (.rp :: r, cur) else
    match switchF (fun g' r' => evalF env f g' r' none) env t r cur with
    | none => none
    | some (r', c') => if g then some (r', c') else evalF env f false r' c'

/-- `IfFeature.Evaluate`: evaluate, pop the result, error when anything is left over -/
def evaluate (env : String → Bool) (toks : List Tok) : Option Bool :=
  match evalF env (toks.length + 1) false toks none with
  | some ([], some b) => some b
  | _ => none

/-! ### the evaluator of the pinned tree (kept for the witnesses): one flat stack, ")" consumed by
     whichever nested evaluation meets it, operators pop whatever is there -/

abbrev StL := List Tok × List Bool

def pop2 (op : Bool → Bool → Bool) : StL → Option StL
  | (r, b :: a :: s) => some (r, op a b :: s)
  | _ => none

def pop1 (op : Bool → Bool) : StL → Option StL
  | (r, a :: s) => some (r, op a :: s)
  | _ => none

def evalLegacy (env : String → Bool) : Nat → Bool → List Tok → List Bool → Option StL
  | 0, _, _, _ => none
  | _ + 1, _, [], st => some ([], st)
  | f + 1, g, t :: r, st =>
    let res : Option StL :=
      match t with
      | .rp => none
      | .lp => evalLegacy env f false r st
      | .and => (evalLegacy env f true r st).bind (pop2 (· && ·))
      | .or => (evalLegacy env f false r st).bind (pop2 (· || ·))
      | .not => (evalLegacy env f true r st).bind (pop1 (!·))
      | .feat s => some (r, env s :: st)
    if t = .rp then some (r, st) else
    match res with
    | none => none
    | some (r', s') => if g then some (r', s') else evalLegacy env f false r' s'

def evaluateLegacy (env : String → Bool) (toks : List Tok) : Option Bool :=
  match evalLegacy env (toks.length + 1) false toks [] with
  | some ([], [b]) => some b
  | _ => none

/-! ### RFC 7950 §7.20.2 grammar and its meaning -/

mutual
  /-- if-feature-expr = if-feature-term [sep "or" sep if-feature-expr] -/
  inductive OrE
    | one (a : AndE)
    | cons (a : AndE) (o : OrE)
  /-- if-feature-term = if-feature-factor [sep "and" sep if-feature-term] -/
  inductive AndE
    | one (n : NotE)
    | cons (n : NotE) (a : AndE)
  /-- if-feature-factor = "not" sep if-feature-factor / "(" expr ")" / identifier -/
  inductive NotE
    | prim (p : Prim)
    | not (n : NotE)
  inductive Prim
    | feat (s : String)
    | paren (o : OrE)
end

mutual
  def OrE.sem (env : String → Bool) : OrE → Bool
    | .one a => a.sem env
    | .cons a o => a.sem env || o.sem env
  def AndE.sem (env : String → Bool) : AndE → Bool
    | .one n => n.sem env
    | .cons n a => n.sem env && a.sem env
  def NotE.sem (env : String → Bool) : NotE → Bool
    | .prim p => p.sem env
    | .not n => !n.sem env
  def Prim.sem (env : String → Bool) : Prim → Bool
    | .feat s => env s
    | .paren o => o.sem env
end

mutual
  def OrE.toks : OrE → List Tok
    | .one a => a.toks
    | .cons a o => a.toks ++ .or :: o.toks
  def AndE.toks : AndE → List Tok
    | .one n => n.toks
    | .cons n a => n.toks ++ .and :: a.toks
  def NotE.toks : NotE → List Tok
    | .prim p => p.toks
    | .not n => .not :: n.toks
  def Prim.toks : Prim → List Tok
    | .feat s => [.feat s]
    | .paren o => .lp :: o.toks ++ [.rp]
end

/-! ### RFC 7950 recursive-descent recogniser (the Spec's notion of "well-formed") -/

mutual
  def parseOr : Nat → List Tok → Option (OrE × List Tok)
    | 0, _ => none
    | f + 1, toks =>
      match parseAnd f toks with
      | none => none
      | some (a, .or :: r) =>
        match parseOr f r with
        | some (o, r') => some (.cons a o, r')
        | none => none
      | some (a, r) => some (.one a, r)
  def parseAnd : Nat → List Tok → Option (AndE × List Tok)
    | 0, _ => none
    | f + 1, toks =>
      match parseNot f toks with
      | none => none
      | some (n, .and :: r) =>
        match parseAnd f r with
        | some (a, r') => some (.cons n a, r')
        | none => none
      | some (n, r) => some (.one n, r)
  def parseNot : Nat → List Tok → Option (NotE × List Tok)
    | 0, _ => none
    | f + 1, .not :: r => (parseNot f r).map fun (n, r') => (.not n, r')
    | f + 1, .feat s :: r => some (.prim (.feat s), r)
    | f + 1, .lp :: r =>
      match parseOr f r with
      | some (o, .rp :: r') => some (.prim (.paren o), r')
      | _ => none
    | _ + 1, _ => none
end

/-- the whole token list is one expression of the grammar -/
def parseRFC (toks : List Tok) : Option OrE :=
  match parseOr (3 * toks.length + 3) toks with
  | some (o, []) => some o
  | _ => none

/-! ### feature configurations (meta/feature_set.go) -/

/-- enabled set for a module that declares `declared`:
    allow-list (`FeaturesOn`) or deny-list (`FeaturesOff`, all-on = empty deny-list) -/
def enabled (declared specified : List String) (otherwiseOn : Bool) (f : String) : Bool :=
  if otherwiseOn then declared.contains f && !specified.contains f
  else declared.contains f && specified.contains f

/-- Resolve with the per-expression cache: a map from expression text to result -/
def resolveCached (eval : String → Option Bool) (cache : List (String × Bool)) (expr : String) :
    Option Bool × List (String × Bool) :=
  match cache.find? (·.1 == expr) with
  | some e => (some e.2, cache)
  | none =>
    match eval expr with
    | some b => (some b, (expr, b) :: cache)
    | none => (none, cache)

/-- checkFeature: every if-feature statement of the node must hold -/
def checkStep (eval : String → Option Bool) (acc : Option Bool) (e : String) : Option Bool :=
  match acc with
  | some true => eval e
  | other => other

def checkFeature (eval : String → Option Bool) (exprs : List String) : Option Bool :=
  exprs.foldl (checkStep eval) (some true)

end YangVerif.IfFeature
