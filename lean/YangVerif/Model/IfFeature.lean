/-
  Model of meta/core.go `IfFeature.Evaluate` / `ifFeatureEval.eval/next/eatws/pop/push`
  and meta/feature_set.go `supportedFeatures` (C11).

  The evaluator is ported one-to-one: a loop with a `greedy` flag, a boolean stack,
  nested calls for "(", "and", "not", "or".  Go recursion + loop becomes one
  function with fuel; `evaluate` supplies enough fuel (proved).
-/
namespace YangVerif.IfFeature

inductive Tok
  | lp | rp | and | or | not
  | feat (s : String)
deriving DecidableEq, Repr, Inhabited

/-! ### tokenizer: `next()` / `eatws()` — blanks separate, '(' and ')' are single tokens -/

def wordTok (w : List Char) : Tok :=
  let s := String.ofList w
  if s == "and" then .and else if s == "or" then .or else if s == "not" then .not else .feat s

/-- `cur` is the word being accumulated (reversed) -/
def tokenizeAux : List Char → List Char → List Tok
  | [], cur => if cur.isEmpty then [] else [wordTok cur.reverse]
  | c :: cs, cur =>
    if c == ' ' then
      (if cur.isEmpty then [] else [wordTok cur.reverse]) ++ tokenizeAux cs []
    else if c == '(' then
      (if cur.isEmpty then [] else [wordTok cur.reverse]) ++ .lp :: tokenizeAux cs []
    else if c == ')' then
      (if cur.isEmpty then [] else [wordTok cur.reverse]) ++ .rp :: tokenizeAux cs []
    else tokenizeAux cs (c :: cur)

def tokenize (s : String) : List Tok := tokenizeAux s.toList []

/-! ### the evaluator (after `fix: if-feature group ends at its own closing parenthesis`) -/

abbrev St := List Tok × List Bool     -- remaining input, boolean stack (top first)

def pop2 (op : Bool → Bool → Bool) : St → Option St
  | (r, b :: a :: s) => some (r, op a b :: s)
  | _ => none

def pop1 (op : Bool → Bool) : St → Option St
  | (r, a :: s) => some (r, op a :: s)
  | _ => none

/-- the `switch tok` of one loop iteration; `rec` is the nested `y.eval(..)`.
    `legacy = true` reproduces the pinned tree: ")" is consumed by whichever nested
    evaluation meets it and "(" does not look for its own ")" -/
def switchF (rec : Bool → List Tok → List Bool → Option St) (legacy : Bool) (env : String → Bool)
    (t : Tok) (r : List Tok) (st : List Bool) : Option St :=
  match t with
  | .lp =>
    match rec false r st with
    | some (.rp :: r2, s1) => if legacy then some (.rp :: r2, s1) else some (r2, s1)
    | some (r2, s1) => if legacy then some (r2, s1) else none
    | none => none
  | .and => (rec true r st).bind (pop2 (· && ·))
  | .or => (rec false r st).bind (pop2 (· || ·))
  | .not => (rec true r st).bind (pop1 (!·))
  | .feat s => some (r, env s :: st)
  | .rp => none

def evalF (legacy : Bool) (env : String → Bool) : Nat → Bool → List Tok → List Bool → Option St
  | 0, _, _, _ => none
  | _ + 1, _, [], st => some ([], st)
  | f + 1, g, t :: r, st =>
    if t = .rp then (if legacy then some (r, st) else some (.rp :: r, st)) else
    match switchF (evalF legacy env f) legacy env t r st with
    | none => none
    | some (r', s') => if g then some (r', s') else evalF legacy env f false r' s'

/-- `IfFeature.Evaluate`: evaluate, pop the result, error when anything is left over -/
def evaluate (legacy : Bool) (env : String → Bool) (toks : List Tok) : Option Bool :=
  match evalF legacy env (toks.length + 1) false toks [] with
  | some ([], [b]) => some b
  | _ => none

/-! ### RFC 7950 §7.20.2 grammar and its meaning -/

mutual
  /-- if-feature-expr = if-feature-term [sep "or" sep if-feature-expr] -/
  inductive OrE
    | one (a : AndE)
    | cons (a : AndE) (o : OrE)
  /-- if-feature-term = if-feature-factor [sep "and" sep if-feature-term] -/
  inductive AndE
    | one (n : NotE)
    | cons (n : NotE) (a : AndE)
  /-- if-feature-factor = "not" sep if-feature-factor / "(" expr ")" / identifier -/
  inductive NotE
    | prim (p : Prim)
    | not (n : NotE)
  inductive Prim
    | feat (s : String)
    | paren (o : OrE)
end

mutual
  def OrE.sem (env : String → Bool) : OrE → Bool
    | .one a => a.sem env
    | .cons a o => a.sem env || o.sem env
  def AndE.sem (env : String → Bool) : AndE → Bool
    | .one n => n.sem env
    | .cons n a => n.sem env && a.sem env
  def NotE.sem (env : String → Bool) : NotE → Bool
    | .prim p => p.sem env
    | .not n => !n.sem env
  def Prim.sem (env : String → Bool) : Prim → Bool
    | .feat s => env s
    | .paren o => o.sem env
end

mutual
  def OrE.toks : OrE → List Tok
    | .one a => a.toks
    | .cons a o => a.toks ++ .or :: o.toks
  def AndE.toks : AndE → List Tok
    | .one n => n.toks
    | .cons n a => n.toks ++ .and :: a.toks
  def NotE.toks : NotE → List Tok
    | .prim p => p.toks
    | .not n => .not :: n.toks
  def Prim.toks : Prim → List Tok
    | .feat s => [.feat s]
    | .paren o => .lp :: o.toks ++ [.rp]
end

/-! ### feature configurations (meta/feature_set.go) -/

/-- enabled set for a module that declares `declared`:
    allow-list (`FeaturesOn`) or deny-list (`FeaturesOff`, all-on = empty deny-list) -/
def enabled (declared specified : List String) (otherwiseOn : Bool) (f : String) : Bool :=
  if otherwiseOn then declared.contains f && !specified.contains f
  else declared.contains f && specified.contains f

/-- Resolve with the per-expression cache: a map from expression text to result -/
def resolveCached (eval : String → Option Bool) (cache : List (String × Bool)) (expr : String) :
    Option Bool × List (String × Bool) :=
  match cache.find? (·.1 == expr) with
  | some e => (some e.2, cache)
  | none =>
    match eval expr with
    | some b => (some b, (expr, b) :: cache)
    | none => (none, cache)

/-- checkFeature: every if-feature statement of the node must hold -/
def checkStep (eval : String → Option Bool) (acc : Option Bool) (e : String) : Option Bool :=
  match acc with
  | some true => eval e
  | other => other

def checkFeature (eval : String → Option Bool) (exprs : List String) : Option Bool :=
  exprs.foldl (checkStep eval) (some true)

end YangVerif.IfFeature
