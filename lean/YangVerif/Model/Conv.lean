/-
  Model of val/conv.go: the per-source-kind dispatch of the `to*` helpers.

  The extractor classifies every `case T:` of `toInt64`, `toUInt64`,
  `toDecimal64`, the narrowing wrappers (`toInt8` … `toUInt32`) and the four
  range-check helpers into a `Shape`; `Gen/ConvTable.lean` is regenerated from
  /repo on every run.  `run` gives each shape its Go semantics (a cast wraps at
  the destination width).
-/
import YangVerif.Model.Util
namespace YangVerif.Conv

/-- Go integer kinds -/
inductive GoInt | i8 | i16 | i32 | i64 | int | u8 | u16 | u32 | u64 | uint
deriving DecidableEq, Repr, Inhabited

def GoInt.bits : GoInt → Nat
  | .i8 | .u8 => 8 | .i16 | .u16 => 16 | .i32 | .u32 => 32 | _ => 64
def GoInt.signed : GoInt → Bool
  | .i8 | .i16 | .i32 | .i64 | .int => true | _ => false
def GoInt.lo (k : GoInt) : Int := if k.signed then -(2 ^ (k.bits - 1) : Int) else 0
def GoInt.hi (k : GoInt) : Int := if k.signed then (2 ^ (k.bits - 1) : Int) - 1 else (2 ^ k.bits : Int) - 1
def GoInt.inRange (k : GoInt) (v : Int) : Bool := k.lo ≤ v && v ≤ k.hi

/-- Go conversion `U(x)` between integer types: keep the low bits, reinterpret -/
def castInt (dst : GoInt) (v : Int) : Int :=
  if dst.signed then (BitVec.ofInt dst.bits v).toInt else (BitVec.ofInt dst.bits v).toNat

/-- external value handed to Conv -/
inductive Src
  | int (k : GoInt) (v : Int)          -- a Go integer of kind k holding v (k.inRange v)
  | float (m : Int) (e : Int)          -- a finite float64/float32: m * 2^e
  | str (s : String)
  | bool (b : Bool)
deriving Repr

/-- source kinds as they appear in a `case` clause -/
inductive SrcKind | int (k : GoInt) | f64 | f32 | str | bool | time | reflInt | reflUint
deriving DecidableEq, Repr, Inhabited

/-- shape of one `case T: return …` clause or of one helper -/
inductive Shape
  | ident                               -- return x, nil
  | cast (src dst : GoInt)              -- return U(x), nil            (unchecked)
  | u2s (src : GoInt)                   -- return uint64ToInt64(uint64(x))
  | s2u (src : GoInt)                   -- return int64ToUint64(int64(x))
  | parseInt (bits : Nat)               -- strconv.ParseInt(x, 10, bits)
  | parseUint (bits : Nat)
  | parseFloat
  | floatS                              -- floatToInt64(x): whole and in range, else error
  | floatU                              -- floatToUint64(x)
  | truncS (dst : GoInt)                -- int64(x) of a float: truncates; unspecified out of range
  | truncU (dst : GoInt)
  | toFloat (src : GoInt)               -- float64(x) unchecked
  | toFloatChecked (src : GoInt)        -- int64ToFloat / uint64ToFloat: exact or error
  | timeUnix
  | reflInt | reflUint                  -- reflect.Value.Int()/Uint() of a named integer type
  | opaque
deriving DecidableEq, Repr, Inhabited

inductive Out | ok (v : Int) | err | unspecified
deriving DecidableEq, Repr

/-! ### strconv.ParseInt / ParseUint base 10 (assumed contract, exercised by the correspondence) -/

def digitsVal : List Char → Option Nat
  | [] => none
  | cs => cs.foldlM (fun acc c => if '0' ≤ c ∧ c ≤ '9' then some (acc * 10 + (c.toNat - 48)) else none) 0

def parseIntDec (s : String) : Option Int :=
  match s.toList with
  | '-' :: rest => (digitsVal rest).map fun n => -(n : Int)
  | '+' :: rest => (digitsVal rest).map fun n => (n : Int)
  | cs => (digitsVal cs).map fun n => (n : Int)

def parseUintDec (s : String) : Option Int :=
  (digitsVal s.toList).map fun n => (n : Int)

/-! ### floats as dyadic rationals m * 2^e -/

def floatIsWhole (m e : Int) : Bool :=
  if e ≥ 0 then true else m % (2 ^ (-e).toNat : Int) == 0

def floatWhole (m e : Int) : Int :=
  if e ≥ 0 then m * (2 ^ e.toNat : Int) else m / (2 ^ (-e).toNat : Int)

/-- truncation toward zero of m * 2^e -/
def floatTrunc (m e : Int) : Int :=
  if e ≥ 0 then m * (2 ^ e.toNat : Int) else Int.tdiv m (2 ^ (-e).toNat : Int)

/-- an integer is exactly representable as float64 iff its odd part fits 53 bits -/
def oddPartFuel : Nat → Nat → Nat
  | 0, n => n
  | fuel + 1, n => if n ≠ 0 ∧ n % 2 = 0 then oddPartFuel fuel (n / 2) else n
def representable53 (v : Int) : Bool := oddPartFuel 64 v.natAbs < 2 ^ 53

/-! ### Go semantics of a shape applied to a source value -/

def run (sh : Shape) (s : Src) : Out :=
  match sh, s with
  | .ident, .int _ v => .ok v
  | .cast _ dst, .int _ v => .ok (castInt dst v)
  | .u2s _, .int _ v => if v > GoInt.i64.hi then .err else .ok v
  | .s2u _, .int _ v => if v < 0 then .err else .ok v
  | .parseInt bits, .str t =>
    match parseIntDec t with
    | some v => if -(2 ^ (bits - 1) : Int) ≤ v ∧ v ≤ (2 ^ (bits - 1) : Int) - 1 then .ok v else .err
    | none => .err
  | .parseUint bits, .str t =>
    match parseUintDec t with
    | some v => if v ≤ (2 ^ bits : Int) - 1 then .ok v else .err
    | none => .err
  | .floatS, .float m e =>
    if floatIsWhole m e ∧ GoInt.i64.inRange (floatWhole m e) then .ok (floatWhole m e) else .err
  | .floatU, .float m e =>
    if floatIsWhole m e ∧ GoInt.u64.inRange (floatWhole m e) then .ok (floatWhole m e) else .err
  | .truncS dst, .float m e =>
    let t := floatTrunc m e
    if GoInt.i64.inRange t then .ok (castInt dst t) else .unspecified
  | .truncU dst, .float m e =>
    let t := floatTrunc m e
    if GoInt.u64.inRange t then .ok (castInt dst t) else .unspecified
  | .reflInt, .int _ v => .ok v
  | .reflUint, .int _ v => .ok v
  | _, _ => .err

/-- a clause is *exact for its source kind and destination* when, for every source
    value of that kind, the result is the same number or an error -/
def Shape.good (dst : GoInt) : Shape → Bool
  | .ident => true
  | .cast src d => d == dst && decide (dst.lo ≤ src.lo) && decide (src.hi ≤ dst.hi)
  | .u2s src => dst == .i64 && !src.signed
  | .s2u src => dst == .u64 && src.signed
  | .parseInt bits => bits == dst.bits && dst.signed
  | .parseUint bits => bits == dst.bits && !dst.signed
  | .floatS => dst == .i64
  | .floatU => dst == .u64
  | .timeUnix => true      -- time.Time is not a number; outside the property
  | .reflInt => dst == .i64
  | .reflUint => dst == .u64
  | _ => false

/-- narrowing wrapper: `i, err := toInt64(val); if err == nil && i >= lo && i <= hi { return T(i) }` -/
def narrow (lo hi : Int) (dst : GoInt) : Out → Out
  | .ok v => if lo ≤ v ∧ v ≤ hi then .ok (castInt dst v) else .err
  | o => o

/-- integer → float64 clauses of toDecimal64 -/
def runToFloat (sh : Shape) (v : Int) : Out :=
  match sh with
  | .toFloat _ => .ok v               -- caller must know it is representable
  | .toFloatChecked _ => if representable53 v then .ok v else .err
  | _ => .err

def Shape.goodFloat : Shape → Bool
  | .toFloat src => src.bits ≤ 32
  | .toFloatChecked _ => true
  | .ident => true
  | .parseFloat => true
  | _ => false

/-! ### toBool / toString -/

def toBool : Src → Option Bool
  | .bool b => some b
  | .str "1" | .str "true" | .str "yes" => some true
  | .str "0" | .str "false" | .str "no" => some false
  | _ => none

/-- mathematical value of an integer source -/
def Src.intVal? : Src → Option Int
  | .int _ v => some v
  | .float m e => if floatIsWhole m e then some (floatWhole m e) else none
  | .str t => parseIntDec t
  | .bool _ => none


/-! ### Conv for the eight integer targets, over the generated tables -/

def kindOf : Src → SrcKind
  | .int k _ => .int k
  | .float _ _ => .f64
  | .str _ => .str
  | .bool _ => .bool

def lookupShape (tbl : List (SrcKind × Shape)) (k : SrcKind) : Option Shape :=
  (tbl.find? (fun e => e.1 == k)).map (·.2)

/-- `toInt64` / `toUInt64`: the type switch -/
def conv64 (tbl : List (SrcKind × Shape)) (s : Src) : Out :=
  match lookupShape tbl (kindOf s) with
  | some sh => run sh s
  | none => .err

abbrev NarrowTable := List (String × Bool × Int × Int × GoInt)

/-- `Conv(FmtIntN/FmtUIntN, s)` -/
def convInt (tS tU : List (SrcKind × Shape)) (nt : NarrowTable) (target : GoInt) (s : Src) : Out :=
  if target = .i64 then conv64 tS s
  else if target = .u64 then conv64 tU s
  else match nt.find? (fun e => e.2.2.2.2 == target) with
    | some (_, viaS, lo, hi, d) => narrow lo hi d (conv64 (if viaS then tS else tU) s)
    | none => .err

/-- a clause is exact for its declared source kind and the 64-bit destination -/
def entryGood (dst : GoInt) : SrcKind × Shape → Bool
  | (.int k, .ident) => decide (dst.lo ≤ k.lo) && decide (k.hi ≤ dst.hi)
  | (.int k, .cast s d) => s == k && d == dst && decide (dst.lo ≤ k.lo) && decide (k.hi ≤ dst.hi)
  | (.int k, .u2s s) => s == k && dst == .i64 && !k.signed
  | (.int k, .s2u s) => s == k && dst == .u64 && k.signed
  | (.str, .parseInt b) => b == 64 && dst == .i64
  | (.str, .parseUint b) => b == 64 && dst == .u64
  | (.f64, .floatS) => dst == .i64
  | (.f32, .floatS) => dst == .i64
  | (.f64, .floatU) => dst == .u64
  | (.f32, .floatU) => dst == .u64
  | (.time, .timeUnix) => true
  | (.reflInt, .reflInt) => dst == .i64
  | (.reflUint, .reflUint) => dst == .u64
  | _ => false

def narrowGood : String × Bool × Int × Int × GoInt → Bool
  | (_, viaS, lo, hi, d) => viaS == d.signed && lo == d.lo && hi == d.hi && d.bits < 64

/-- the source is a well-formed external value: a Go integer lies in the range of its kind -/
def Src.wf : Src → Bool
  | .int k v => k.inRange v
  | _ => true

/-- what the source denotes when read as an integer for a target of the given signedness
    (ParseUint accepts no sign) -/
def Src.denoteInt (signed : Bool) : Src → Option Int
  | .int _ v => some v
  | .float m e => if floatIsWhole m e then some (floatWhole m e) else none
  | .str t => if signed then parseIntDec t else parseUintDec t
  | .bool _ => none

end YangVerif.Conv
