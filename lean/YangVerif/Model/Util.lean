/-
  Small helpers shared by the executable models and the line-protocol driver.
  Core Lean only (the driver is linked as a native executable).
-/
namespace YangVerif

/-- hex digit value -/
def hexVal (c : Char) : Option Nat :=
  if '0' ≤ c ∧ c ≤ '9' then some (c.toNat - '0'.toNat)
  else if 'a' ≤ c ∧ c ≤ 'f' then some (c.toNat - 'a'.toNat + 10)
  else if 'A' ≤ c ∧ c ≤ 'F' then some (c.toNat - 'A'.toNat + 10)
  else none

def hexDigit (n : Nat) : Char :=
  if n < 10 then Char.ofNat ('0'.toNat + n) else Char.ofNat ('a'.toNat + (n - 10))

/-- decode "616263" into the bytes [0x61,0x62,0x63]; "-" is the empty string -/
def unhexBytes (s : String) : Option (List Nat) :=
  if s == "-" then some [] else
  let rec go : List Char → List Nat → Option (List Nat)
    | [], acc => some acc.reverse
    | [_], _ => none
    | a :: b :: rest, acc =>
      match hexVal a, hexVal b with
      | some x, some y => go rest ((x * 16 + y) :: acc)
      | _, _ => none
  go s.toList []

def hexBytes (bs : List Nat) : String :=
  if bs.isEmpty then "-" else
  String.ofList (bs.flatMap fun b => [hexDigit (b / 16 % 16), hexDigit (b % 16)])

/-- bytes of a Lean string (UTF-8) as naturals -/
def strBytes (s : String) : List Nat := s.toUTF8.toList.map (·.toNat)

/-- build a string from UTF-8 bytes; invalid sequences are replaced, the driver only
    uses this for printing text that was valid on the way in -/
def bytesStr (bs : List Nat) : String :=
  let ba : ByteArray := ⟨(bs.map fun b => UInt8.ofNat b).toArray⟩
  match String.fromUTF8? ba with
  | some s => s
  | none => "<invalid-utf8>"

def unhexStr (s : String) : Option String := (unhexBytes s).map bytesStr
def hexStr (s : String) : String := hexBytes (strBytes s)

def parseInt? (s : String) : Option Int := s.toInt?

def signOf (i : Int) : Int := if i < 0 then -1 else if i > 0 then 1 else 0

end YangVerif
