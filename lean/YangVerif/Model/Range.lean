/-
  Model of meta/core.go `newRange / newRangeNumber / RangeEntry.CheckValue /
  Range.CheckValue` and node/field_constraints.go `checkRange / lenCheck /
  patternCheck` (C05).

  Numbers are exact: integers as `Int`; decimal64 values and bounds as integers
  scaled by 10^scale (the harness only generates decimals with at most `scale`
  fraction digits, so scaling is exact).
-/
import YangVerif.Model.Conv
namespace YangVerif.Range

/-- meta.RangeNumber -/
inductive RNum
  | empty
  | min
  | max
  | num (v : Int)          -- already scaled
deriving DecidableEq, Repr, Inhabited

/-- meta.RangeEntry -/
structure REntry where
  min : RNum
  max : RNum
  exact : RNum
deriving DecidableEq, Repr, Inhabited

/-- meta.Range: the alternatives of one `range`/`length` statement -/
abbrev Range := List REntry

/-! ### newRangeNumber / newRange (text → Range) -/

def trimSpaces (cs : List Char) : List Char :=
  let dropL := cs.dropWhile Char.isWhitespace
  (dropL.reverse.dropWhile Char.isWhitespace).reverse

/-- decimal text `[+-]digits[.digits]` → value scaled by 10^scale; `none` when it has
    more fraction digits than `scale` or is not a number -/
def parseScaled (scale : Nat) (cs : List Char) : Option Int :=
  let (neg, body) := match cs with
    | '-' :: r => (true, r)
    | '+' :: r => (false, r)
    | r => (false, r)
  let ip := body.takeWhile (· ≠ '.')
  let rest := body.dropWhile (· ≠ '.')
  let fp := match rest with | '.' :: f => f | _ => []
  if rest.length == 1 then none else   -- "5." has no digits after the point
  match Conv.digitsVal ip with
  | none => none
  | some i =>
    if fp.isEmpty then
      some ((if neg then -1 else 1) * (i : Int) * (10 ^ scale : Int))
    else if fp.length > scale then none else
      match Conv.digitsVal fp with
      | none => none
      | some f => some ((if neg then -1 else 1) * ((i : Int) * (10 ^ scale : Int) + (f : Int) * (10 ^ (scale - fp.length) : Int)))

def parseRNum (scale : Nat) (cs : List Char) : Option RNum :=
  let t := trimSpaces cs
  if t == "max".toList then some .max
  else if t == "min".toList then some .min
  else (parseScaled scale t).map .num

/-- split a character list on a separator character -/
def splitOnChar (sep : Char) : List Char → List (List Char)
  | [] => [[]]
  | c :: cs =>
    match splitOnChar sep cs with
    | [] => [[c]]       -- unreachable
    | h :: t => if c == sep then [] :: h :: t else (c :: h) :: t

/-- split "a..b" at the first ".." ; none when there is no ".." -/
def splitDotDot : List Char → Option (List Char × List Char)
  | [] => none
  | '.' :: '.' :: rest => some ([], rest)
  | c :: rest => (splitDotDot rest).map fun (a, b) => (c :: a, b)

/-- `strings.Split(srange, "..")` has exactly two segments -/
def parseEntry (scale : Nat) (cs : List Char) : Option REntry :=
  match splitDotDot cs with
  | some (a, b) =>
    match splitDotDot b with
    | some _ => -- three or more segments: Go falls to the Exact branch with the whole text
      (parseRNum scale cs).map fun n => { min := .empty, max := .empty, exact := n }
    | none =>
      match parseRNum scale a, parseRNum scale b with
      | some lo, some hi => some { min := lo, max := hi, exact := .empty }
      | _, _ => none
  | none => (parseRNum scale cs).map fun n => { min := .empty, max := .empty, exact := n }

def parseRange (scale : Nat) (s : String) : Option Range :=
  (splitOnChar '|' s.toList).mapM (parseEntry scale)

/-! ### checking -/

/-- RangeEntry.CheckValue (after `fix: range and length checks handle min/max …`):
    an exact `min`/`max` cannot be compared and rejects; `min` as lower and `max` as upper
    bound leave that side open -/
def entryCheck (e : REntry) (v : Int) : Bool :=
  (match e.exact with
   | .empty => true
   | .num x => x == v
   | _ => false) &&
  (match e.min with
   | .empty => true
   | .min => true
   | .num lo => decide (lo ≤ v)
   | .max => false) &&
  (match e.max with
   | .empty => true
   | .max => true
   | .num hi => decide (v ≤ hi)
   | .min => false)

/-- Range.CheckValue on one item -/
def rangeCheck (r : Range) (v : Int) : Bool := r.isEmpty || r.any (entryCheck · v)

/-- fieldConstraints.checkRange / lenCheck: every level of the typedef chain -/
def levelsCheck (levels : List Range) (v : Int) : Bool := levels.all (rangeCheck · v)

/-- the behaviour before `fix: a value must satisfy the range/length of every typedef level` -/
def levelsCheckLegacyOr (levels : List Range) (v : Int) : Bool := levels.isEmpty || levels.any (rangeCheck · v)

/-- leaf-list: every element on its own -/
def listCheck (levels : List Range) (vs : List Int) : Bool := vs.all (levelsCheck levels)

/-- patternCheck as the code has it: satisfied as soon as ONE pattern (with its invert flag)
    is satisfied.  `sat` lists, per pattern, `regex.MatchString(s) != inverted`. -/
def patternCheckOr (sat : List Bool) : Bool := sat.isEmpty || sat.any id
/-- RFC 7950 9.4.5: all patterns -/
def patternCheckAnd (sat : List Bool) : Bool := sat.all id

/-! ### Selection.set: pre-constraints, then Node.Field -/

structure Store (α : Type) where
  leaf : Option α
deriving Repr

/-- returns (accepted?, store') -/
def setLeaf {α : Type} (check : α → Bool) (st : Store α) (v : α) : Bool × Store α :=
  if check v then (true, { leaf := some v }) else (false, st)

/-! ### specification: membership in the effective type -/

/-- value of a bound, `min`/`max` meaning the bounds of the base type -/
def bval (tlo thi : Int) : RNum → Option Int
  | .min => some tlo
  | .max => some thi
  | .num v => some v
  | .empty => none

/-- one alternative `lo..hi` (or a single value) contains v -/
def altContains (tlo thi : Int) (e : REntry) (v : Int) : Prop :=
  match e.exact with
  | .empty =>
    (match bval tlo thi e.min with | some lo => lo ≤ v | none => True) ∧
    (match bval tlo thi e.max with | some hi => v ≤ hi | none => True)
  | x => bval tlo thi x = some v

/-- RFC 7950 9.2.4: inside some alternative of the restriction of *every* derivation level -/
def inType (tlo thi : Int) (levels : List Range) (v : Int) : Prop :=
  tlo ≤ v ∧ v ≤ thi ∧ ∀ r ∈ levels, r = [] ∨ ∃ e ∈ r, altContains tlo thi e v

/-- executable form of `altContains` / `inType` (used by the driver as the oracle) -/
def altContainsB (tlo thi : Int) (e : REntry) (v : Int) : Bool :=
  match e.exact with
  | .empty =>
    (match bval tlo thi e.min with | some lo => decide (lo ≤ v) | none => true) &&
    (match bval tlo thi e.max with | some hi => decide (v ≤ hi) | none => true)
  | x => bval tlo thi x == some v

def inTypeB (tlo thi : Int) (levels : List Range) (v : Int) : Bool :=
  decide (tlo ≤ v) && decide (v ≤ thi) && levels.all fun r => r.isEmpty || r.any (altContainsB tlo thi · v)

/-- entries as the parser produces them and as RFC 7950 allows them: a single value has no
    bounds, `max` is not a lower and `min` not an upper bound, a single value is a number -/
def REntry.wf (e : REntry) : Bool :=
  match e.exact with
  | .empty => e.min != .max && e.max != .min && e.min != .empty && e.max != .empty
  | .num _ => e.min == .empty && e.max == .empty
  | _ => false

end YangVerif.Range
