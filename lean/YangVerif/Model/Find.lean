/-
  Model of navigation by path (C08): node/path_slice.go `parseUrlPath` (the part that looks at the schema:
  which step names what, where a key may stand, how many components it needs) and node/find.go
  `findSlice` (the walk over the data: `selekt` for a container or list, `selectListItem` for a key).

  Schema and data are the positional ones of Model/Data.lean; the harness resolves a step's name to the
  position of the schema child (a name the level does not have is a position out of range).  The text of a
  path (splitting, escaping) is Model/Path.lean; conditions and read filters are C16/C07.
-/
import YangVerif.Model.Data
namespace YangVerif.Find
open YangVerif.Data

/-- one step of a request path: the position of the schema child it names and the key components
    written behind `=` (`[]`: the step has no `=`; `a=` is one empty component) -/
structure Seg where
  i : Nat
  keys : Key
deriving DecidableEq, Repr, Inhabited

/-- what a selection stands on -/
inductive Loc
  | body (ks : List Schema) (b : List Data)                    -- the root, a container, a list entry
  | rows (ks : List Schema) (rows : List (Key × List Data))    -- a list as a whole
  | leaf (v : Option Val)                                      -- a leaf: what `Get` reads (value, else default)
deriving Repr, Inhabited

inductive Res
  | found (l : Loc)
  | none            -- (nil, nil): nothing is there
  | notFound        -- error: the schema has no such name
  | bad             -- error: bad request
deriving Repr, Inhabited

/-- the two refusals of parseUrlPath -/
inductive Refusal | notFound | bad
deriving DecidableEq, Repr

/-- does the key written on a step fit the schema node it names -/
def keyFits : Schema → Key → Bool
  | .list n _, k => k.isEmpty || k.length == n
  | _, k => k.isEmpty

/-- parseUrlPath, schema side: steps are checked left to right before any data is looked at -/
def checkSegs : List Schema → List Seg → Option Refusal
  | _, [] => none
  | ks, s :: rest =>
    match ks[s.i]? with
    | none => some .notFound
    | some sc =>
      if !keyFits sc s.keys then some .bad else
      match rest with
      | [] => none
      | _ :: _ =>
        match sc with
        | .leaf _ => some .bad                     -- "cannot select … inside" a leaf
        | .cont cks => checkSegs cks rest
        | .list _ lks => checkSegs lks rest

/-- findSlice: the walk over the data -/
def walk : List Schema → List Data → List Seg → Res
  | ks, b, [] => .found (.body ks b)
  | ks, b, s :: rest =>
    match ks[s.i]?, b[s.i]? with
    | some (.leaf d), some (.leaf v) =>
      if rest.isEmpty then .found (.leaf (match v with | some x => some x | none => d)) else .bad
    | some (.cont _), some (.cont none) => .none
    | some (.cont cks), some (.cont (some cb)) => walk cks cb rest
    | some (.list _ _), some (.list []) => .none
    | some (.list _ lks), some (.list (r :: rs)) =>
      if s.keys.isEmpty then
        (if rest.isEmpty then .found (.rows lks (r :: rs)) else .bad)
      else
        match findRow s.keys (r :: rs) with
        | some eb => walk lks eb rest
        | none => .none
    | _, _ => .bad

/-- Selection.Find without `../` steps and parameters -/
def find (ks : List Schema) (b : List Data) (segs : List Seg) : Res :=
  match checkSegs ks segs with
  | some .notFound => .notFound
  | some .bad => .bad
  | none => walk ks b segs

/-! ### Specification: the node an address names

  `Reach ks b p l`: in the tree `b` (shaped by `ks`) the address `p` names the node `l`.  An address is the
  sequence of names and keys from the root (a key has as many components as the list has key leaves);
  a list entry is *any* row that carries the key. -/

inductive Reach : List Schema → List Data → List Seg → Loc → Prop
  | here (ks b) : Reach ks b [] (.body ks b)
  | leaf (ks b i d v) : ks[i]? = some (.leaf d) → b[i]? = some (.leaf v) →
      Reach ks b [⟨i, []⟩] (.leaf (match v with | some x => some x | none => d))
  | cont (ks b i cks cb p l) : ks[i]? = some (.cont cks) → b[i]? = some (.cont (some cb)) →
      Reach cks cb p l → Reach ks b (⟨i, []⟩ :: p) l
  | list (ks b i n lks rows) : ks[i]? = some (.list n lks) → b[i]? = some (.list rows) → rows ≠ [] →
      Reach ks b [⟨i, []⟩] (.rows lks rows)
  | entry (ks b i n lks rows k eb p l) : ks[i]? = some (.list n lks) → b[i]? = some (.list rows) →
      k ≠ [] → k.length = n → (k, eb) ∈ rows → Reach lks eb p l → Reach ks b (⟨i, k⟩ :: p) l

end YangVerif.Find
