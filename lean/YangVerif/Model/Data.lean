/-
  Shared model of schema-shaped data trees and of the editor (node/edit.go).

  A container body is a list of children *aligned with the schema's children* (same
  length, same order), so a data tree needs no names and merge is position-wise; the
  harness maps names to positions.  Leaf values are opaque canonical texts — what a
  value denotes is the business of C10/C17, not of the editor.
-/
namespace YangVerif.Data

abbrev Val := String
abbrev Key := List Val

/-- compiled schema, as far as the editor looks at it -/
inductive Schema
  | leaf (dflt : Option Val)
  | cont (kids : List Schema)
  | list (nkeys : Nat) (kids : List Schema)      -- the first `nkeys` children are the key leaves
deriving Repr, Inhabited

/-- data shaped by a schema node -/
inductive Data
  | leaf (v : Option Val)
  | cont (body : Option (List Data))              -- none: the container does not exist
  | list (rows : List (Key × List Data))          -- [] : the list does not exist
deriving Repr, Inhabited

inductive Err | conflict | notFound | shape
deriving DecidableEq, Repr

inductive Strategy | upsert | insert | update
deriving DecidableEq, Repr

/-! ### empty / default-filled nodes -/

mutual
  /-- what `Child{New}` / `Next{New}` create: nothing set -/
  def emptyOf : Schema → Data
    | .leaf _ => .leaf none
    | .cont _ => .cont none
    | .list _ _ => .list []
  def emptyBody : List Schema → List Data
    | [] => []
    | s :: r => emptyOf s :: emptyBody r
end

mutual
  /-- a created node as the *specification* sees it: unset leaves hold their schema default -/
  def freshOf : Schema → Data
    | .leaf d => .leaf d
    | .cont _ => .cont none
    | .list _ _ => .list []
  def freshBody : List Schema → List Data
    | [] => []
    | s :: r => freshOf s :: freshBody r
end

/-! ### rows -/

def findRow (k : Key) : List (Key × List Data) → Option (List Data)
  | [] => none
  | (k', b) :: r => if k' = k then some b else findRow k r

/-- replace the body of the first row with key k -/
def setRow (k : Key) (b : List Data) : List (Key × List Data) → List (Key × List Data)
  | [] => []
  | (k', b') :: r => if k' = k then (k', b) :: r else (k', b') :: setRow k b r

/-! ### Specification: keyed deep merge (upsert) -/

mutual
  def merge : Schema → Data → Data → Data
    | .leaf _, .leaf (some v), _ => .leaf (some v)
    | .leaf _, .leaf none, t => t
    | .cont ks, .cont (some sb), .cont (some tb) => .cont (some (mergeKids ks sb tb))
    | .cont ks, .cont (some sb), _ => .cont (some (mergeKids ks sb (freshBody ks)))
    | .cont _, .cont none, t => t
    | .list _ ks, .list srows, .list trows => .list (mergeRows ks srows trows)
    | _, _, t => t
  def mergeKids : List Schema → List Data → List Data → List Data
    | s :: ss, d :: ds, t :: ts => merge s d t :: mergeKids ss ds ts
    | _, _, ts => ts
  /-- source rows in order: matched by key, otherwise appended -/
  def mergeRows : List Schema → List (Key × List Data) → List (Key × List Data) → List (Key × List Data)
    | _, [], t => t
    | ks, (k, sb) :: rest, t =>
      match findRow k t with
      | some tb => mergeRows ks rest (setRow k (mergeKids ks sb tb) t)
      | none => mergeRows ks rest (t ++ [(k, mergeKids ks sb (freshBody ks))])
end

/-! ### Model: the editor of node/edit.go

  `new` is the flag the Go code threads through `enter`: true when the enclosing target
  node was just created.  Leaves of a new node are read from the source with
  `useDefault = (strategy ≠ update ∧ new)`; below a list entry every strategy becomes upsert. -/

mutual
  /-- editor.leaf / editor.node (incl. the list case of enter) for one schema child -/
  def edit (st : Strategy) (new : Bool) : Schema → Data → Data → Except Err Data
    | .leaf d, .leaf sv, t =>
      let v := match sv with
        | some v => some v
        | none => if st ≠ .update ∧ new then d else none
      match v with
      | some v => .ok (.leaf (some v))
      | none => .ok t
    | .cont _, .cont none, t => .ok t                       -- from.selekt returned nil
    | .cont ks, .cont (some sb), .cont tb =>
      match st, tb with
      | .insert, some _ => .error .conflict
      | .insert, none => (editKids .insert true ks sb (emptyBody ks)).map fun b => .cont (some b)
      | .upsert, none => (editKids .upsert true ks sb (emptyBody ks)).map fun b => .cont (some b)
      | .upsert, some tb => (editKids .upsert false ks sb tb).map fun b => .cont (some b)
      | .update, none => .error .notFound
      | .update, some tb => (editKids .update false ks sb tb).map fun b => .cont (some b)
    | .list _ _, .list [], t => .ok t                        -- the source has no such list
    | .list _ ks, .list (r :: rs), .list trows =>
      match st, trows with
      | .insert, _ :: _ => .error .conflict                 -- the list node itself exists
      | .update, [] => .error .notFound
      | _, _ => (editRows st ks (r :: rs) trows).map .list
    | _, _, _ => .error .shape
  /-- the loop of editor.enter over the schema children of a container / list entry -/
  def editKids (st : Strategy) (new : Bool) : List Schema → List Data → List Data → Except Err (List Data)
    | s :: ss, d :: ds, t :: ts =>
      match edit st new s d t with
      | .error e => .error e
      | .ok t' =>
        match editKids st new ss ds ts with
        | .error e => .error e
        | .ok ts' => .ok (t' :: ts')
    | [], [], [] => .ok []
    | _, _, _ => .error .shape
  /-- editor.list: the loop over the source rows -/
  def editRows (st : Strategy) : List Schema → List (Key × List Data) → List (Key × List Data) →
      Except Err (List (Key × List Data))
    | _, [], t => .ok t
    | ks, (k, sb) :: rest, t =>
      match st, findRow k t with
      | .update, none => .error .notFound
      | .insert, some _ => .error .conflict
      | _, some tb =>
        match editKids .upsert false ks sb tb with
        | .error e => .error e
        | .ok b => editRows st ks rest (setRow k b t)
      | _, none =>
        match editKids .upsert true ks sb (emptyBody ks) with
        | .error e => .error e
        | .ok b => editRows st ks rest (t ++ [(k, b)])
end

/-! ### well-shaped data -/

mutual
  /-- data conforms to the schema: same shape, bodies aligned -/
  def conforms : Schema → Data → Bool
    | .leaf _, .leaf _ => true
    | .cont _, .cont none => true
    | .cont ks, .cont (some b) => conformsBody ks b
    | .list _ ks, .list rows => conformsRows ks rows
    | _, _ => false
  def conformsBody : List Schema → List Data → Bool
    | [], [] => true
    | s :: ss, d :: ds => conforms s d && conformsBody ss ds
    | _, _ => false
  def conformsRows : List Schema → List (Key × List Data) → Bool
    | _, [] => true
    | ks, (_, b) :: r => conformsBody ks b && conformsRows ks r
end

def keysOf (rows : List (Key × List Data)) : List Key := rows.map (·.1)

mutual
  /-- no list holds two entries with equal keys, at any depth -/
  def uniqueKeys : Data → Bool
    | .leaf _ => true
    | .cont none => true
    | .cont (some b) => uniqueKeysBody b
    | .list rows => (keysOf rows).Nodup && uniqueKeysRows rows
  def uniqueKeysBody : List Data → Bool
    | [] => true
    | d :: ds => uniqueKeys d && uniqueKeysBody ds
  def uniqueKeysRows : List (Key × List Data) → Bool
    | [] => true
    | (_, b) :: r => uniqueKeysBody b && uniqueKeysRows r
end

/-! ### what an export (a read into a fresh target) reports (Spec of C04) -/

mutual
  /-- the data itself; below a node the export had to create, unset leaves show their default -/
  def withDefaults (new : Bool) : Schema → Data → Data
    | .leaf d, .leaf (some v) => .leaf (some v)
    | .leaf d, .leaf none => if new then .leaf d else .leaf none
    | .cont _, .cont none => .cont none
    | .cont ks, .cont (some b) => .cont (some (withDefaultsBody true ks b))
    | .list _ ks, .list rows => .list (withDefaultsRows ks rows)
    | _, d => d
  def withDefaultsBody (new : Bool) : List Schema → List Data → List Data
    | s :: ss, d :: ds => withDefaults new s d :: withDefaultsBody new ss ds
    | _, ds => ds
  def withDefaultsRows : List Schema → List (Key × List Data) → List (Key × List Data)
    | _, [] => []
    | ks, (k, b) :: r => (k, withDefaultsBody true ks b) :: withDefaultsRows ks r
end

/-! ### when insert / update succeed (Spec) -/

mutual
  /-- "no container, list or list entry at the level being inserted already exists in T" -/
  def insertOK : Schema → Data → Data → Bool
    | .cont _, .cont (some _), .cont (some _) => false
    | .list _ _, .list (_ :: _), .list (_ :: _) => false
    | _, _, _ => true
  def insertOKKids : List Schema → List Data → List Data → Bool
    | s :: ss, d :: ds, t :: ts => insertOK s d t && insertOKKids ss ds ts
    | _, _, _ => true
end

mutual
  /-- "every container and list entry S addresses already exists" (below a list entry the
      editor upserts, so nothing is demanded there) -/
  def updateOK : Schema → Data → Data → Bool
    | .cont ks, .cont (some sb), .cont (some tb) => updateOKKids ks sb tb
    | .cont _, .cont (some _), .cont none => false
    | .list _ _, .list (_ :: _), .list [] => false
    | .list _ _, .list rows, .list trows => rows.all fun r => (findRow r.1 trows).isSome
    | _, _, _ => true
  def updateOKKids : List Schema → List Data → List Data → Bool
    | s :: ss, d :: ds, t :: ts => updateOK s d t && updateOKKids ss ds ts
    | _, _, _ => true
end

/-! ### delete / replace (node/selection.go Delete, ReplaceFrom) -/

/-- `Next{Delete, Key}` on the list node: remove the (first) entry with that key -/
def removeRow (k : Key) : List (Key × List Data) → List (Key × List Data)
  | [] => []
  | (k', b) :: r => if k' = k then r else (k', b) :: removeRow k r

/-- `Child{Delete}` on the parent: the child container or whole list is gone -/
def deleteChild (ks : List Schema) (i : Nat) (body : List Data) : List Data :=
  match ks[i]? with
  | some s => body.set i (emptyOf s)
  | none => body

/-- delete the entry with key k of the list that is child i -/
def deleteRow (i : Nat) (k : Key) (body : List Data) : List Data :=
  match body[i]? with
  | some (.list rows) => body.set i (.list (removeRow k rows))
  | _ => body

/-- a source document for the parent that mentions only child i -/
def onlyChild (ks : List Schema) (i : Nat) (d : Data) : List Data := (emptyBody ks).set i d

/-- ReplaceFrom on the container / whole list that is child i: delete, then insert at the parent -/
def replaceChild (ks : List Schema) (i : Nat) (d : Data) (body : List Data) : Except Err (List Data) :=
  editKids .insert false ks (onlyChild ks i d) (deleteChild ks i body)

/-- ReplaceFrom on a list entry: `Next{Delete}` for its key, then the list-level insert of the
    supplied entry (same key), which appends it -/
def replaceRow (ks : List Schema) (i : Nat) (k : Key) (b : List Data) (body : List Data) : List Data :=
  match ks[i]?, body[i]? with
  | some (.list _ lks), some (.list rows) =>
    match editRows .insert lks [(k, b)] (removeRow k rows) with
    | .ok rows' => body.set i (.list rows')
    | .error _ => body.set i (.list (removeRow k rows))    -- the delete has happened
  | _, _ => body

/-! ### histories of operations on one root container -/

inductive Op
  | upsert (doc : List Data)
  | insert (doc : List Data)
  | update (doc : List Data)
  | delChild (i : Nat)
  | delRow (i : Nat) (k : Key)
  | replace (i : Nat) (d : Data)
  | replaceRow (i : Nat) (k : Key) (b : List Data)   -- ReplaceFrom on the entry with key k of list i

def okOr (body : List Data) : Except Err (List Data) → List Data
  | .ok b => b
  | .error _ => body        -- a failed request leaves the tree as it was

def step (ks : List Schema) (body : List Data) : Op → List Data
  | .upsert doc => okOr body (editKids .upsert false ks doc body)
  | .insert doc => okOr body (editKids .insert false ks doc body)
  | .update doc => okOr body (editKids .update false ks doc body)
  | .delChild i => deleteChild ks i body
  | .delRow i k => deleteRow i k body
  | .replace i d => okOr body (replaceChild ks i d body)
  | .replaceRow i k b => replaceRow ks i k b body

/-- the documents of a request conform to the schema and have unique keys themselves -/
def Op.wf (ks : List Schema) : Op → Bool
  | .upsert doc => conformsBody ks doc && uniqueKeysBody doc
  | .insert doc => conformsBody ks doc && uniqueKeysBody doc
  | .update doc => conformsBody ks doc && uniqueKeysBody doc
  | .delChild _ => true
  | .delRow _ _ => true
  | .replace i d => match ks[i]? with
    | some s => conforms s d && uniqueKeys d
    | none => false
  | .replaceRow i _ b => match ks[i]? with
    | some (.list _ lks) => conformsBody lks b && uniqueKeysBody b
    | _ => false

end YangVerif.Data
