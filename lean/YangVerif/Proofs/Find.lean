/-
  Helper lemmas for Model/Find.lean (C08): the walk reaches the addressed node and only that.
-/
import YangVerif.Model.Find
import YangVerif.Proofs.Data
set_option linter.unusedSimpArgs false
set_option linter.unusedVariables false
namespace YangVerif.Find
open YangVerif.Data

theorem mem_findRow (k : Key) (eb : List Data) : ∀ (rows : List (Key × List Data)),
    (k, eb) ∈ rows → (keysOf rows).Nodup → findRow k rows = some eb
  | [], h, _ => by simp at h
  | (k', b') :: r, h, hn => by
    simp only [keysOf, List.map_cons, List.nodup_cons] at hn
    simp only [findRow]
    rcases List.mem_cons.1 h with h1 | h1
    · injection h1 with h2 h3; subst h2; subst h3; simp
    · have hk : k ∈ keysOf r := List.mem_map.2 ⟨(k, eb), h1, rfl⟩
      have hne : k' ≠ k := fun e => hn.1 (by simpa [keysOf, e] using hk)
      simp only [hne, if_false]
      exact mem_findRow k eb r h1 hn.2

theorem findRow_mem (k : Key) (eb : List Data) : ∀ (rows : List (Key × List Data)),
    findRow k rows = some eb → (k, eb) ∈ rows
  | [], h => by simp [findRow] at h
  | (k', b') :: r, h => by
    simp only [findRow] at h
    by_cases hk : k' = k
    · simp only [hk, if_true, Option.some.injEq] at h; subst hk; subst h; simp
    · simp only [hk, if_false] at h
      exact List.mem_cons_of_mem _ (findRow_mem k eb r h)

theorem uniqueKeysRows_mem (k : Key) (eb : List Data) : ∀ (rows : List (Key × List Data)),
    uniqueKeysRows rows = true → (k, eb) ∈ rows → uniqueKeysBody eb = true
  | [], _, h => by simp at h
  | (k', b') :: r, hu, h => by
    simp only [uniqueKeysRows, Bool.and_eq_true] at hu
    rcases List.mem_cons.1 h with h1 | h1
    · injection h1 with h2 h3; subst h3; exact hu.1
    · exact uniqueKeysRows_mem k eb r hu.2 h1

theorem unique_list (b : List Data) (i : Nat) (rows : List (Key × List Data))
    (hb : b[i]? = some (.list rows)) (hu : uniqueKeysBody b = true) :
    (keysOf rows).Nodup ∧ uniqueKeysRows rows = true := by
  have := uniqueKeysBody_get b i _ hb hu
  simpa [uniqueKeys] using this

theorem unique_cont (b : List Data) (i : Nat) (cb : List Data)
    (hb : b[i]? = some (.cont (some cb))) (hu : uniqueKeysBody b = true) : uniqueKeysBody cb = true := by
  have := uniqueKeysBody_get b i _ hb hu
  simpa [uniqueKeys] using this

theorem checkSegs_step (ks : List Schema) (s : Seg) (rest : List Seg) (sc : Schema)
    (h : ks[s.i]? = some sc) (hf : keyFits sc s.keys = true) :
    checkSegs ks (s :: rest) =
      (match rest with
       | [] => none
       | _ :: _ =>
         match sc with
         | .leaf _ => some .bad
         | .cont cks => checkSegs cks rest
         | .list _ lks => checkSegs lks rest) := by
  rw [checkSegs]; simp only [h, hf, Bool.not_true, Bool.false_eq_true, if_false]
  cases rest with
  | nil => rfl
  | cons _ _ => cases sc <;> rfl

/-- an address that names a node passes the schema check -/
theorem reach_check {ks b p l} (h : Reach ks b p l) : checkSegs ks p = none := by
  induction h with
  | here ks b => simp [checkSegs]
  | leaf ks b i d v hk hb => rw [checkSegs_step ks ⟨i, []⟩ [] _ hk (by simp [keyFits])]
  | cont ks b i cks cb p l hk hb hr ih =>
    rw [checkSegs_step ks ⟨i, []⟩ p _ hk (by simp [keyFits])]
    cases p with
    | nil => rfl
    | cons s r => exact ih
  | list ks b i n lks rows hk hb hne => rw [checkSegs_step ks ⟨i, []⟩ [] _ hk (by simp [keyFits])]
  | entry ks b i n lks rows k eb p l hk hb hne hlen hm hr ih =>
    rw [checkSegs_step ks ⟨i, k⟩ p _ hk (by simp [keyFits, hlen])]
    cases p with
    | nil => rfl
    | cons s r => exact ih

/-- … and, keys being unique, the walk arrives at exactly that node -/
theorem reach_walk {ks b p l} (h : Reach ks b p l) : uniqueKeysBody b = true → walk ks b p = .found l := by
  induction h with
  | here ks b => intro _; simp [walk]
  | leaf ks b i d v hk hb => intro _; simp [walk, hk, hb]
  | cont ks b i cks cb p l hk hb hr ih =>
    intro hu
    simp only [walk, hk, hb]
    exact ih (unique_cont b i cb hb hu)
  | list ks b i n lks rows hk hb hne =>
    intro _
    cases rows with
    | nil => exact absurd rfl hne
    | cons r rs => simp [walk, hk, hb]
  | entry ks b i n lks rows k eb p l hk hb hne hlen hm hr ih =>
    intro hu
    have ⟨hnd, hur⟩ := unique_list b i rows hb hu
    cases rows with
    | nil => simp at hm
    | cons r rs =>
      have hke : k.isEmpty = false := by cases k with | nil => exact absurd rfl hne | cons _ _ => rfl
      simp only [walk, hk, hb, hke, Bool.false_eq_true, if_false, mem_findRow k eb (r :: rs) hm hnd]
      exact ih (uniqueKeysRows_mem k eb (r :: rs) hur hm)

/-- whatever the walk arrives at is the node the address names (no hypothesis on the keys: with
    duplicate keys it is one of the nodes of that address) -/
theorem walk_reach : ∀ (p : List Seg) (ks : List Schema) (b : List Data) (l : Loc),
    checkSegs ks p = none → walk ks b p = .found l → Reach ks b p l
  | [], ks, b, l, _, hw => by
    simp only [walk, Res.found.injEq] at hw; subst hw; exact .here ks b
  | s :: rest, ks, b, l, hc, hw => by
    obtain ⟨i, k⟩ := s
    simp only [checkSegs] at hc
    cases hks : ks[i]? with
    | none => simp [hks] at hc
    | some sc =>
      simp only [hks] at hc
      cases hbs : b[i]? with
      | none => simp [walk, hks, hbs] at hw
      | some d =>
        cases sc with
        | leaf dflt =>
          cases d with
          | leaf v =>
            simp only [walk, hks, hbs] at hw
            cases rest with
            | nil =>
              simp only [List.isEmpty_nil, if_true, Res.found.injEq] at hw; subst hw
              have hk0 : k = [] := by
                by_cases h0 : k = []
                · exact h0
                · simp [keyFits, h0] at hc
              subst hk0
              exact .leaf ks b i dflt v hks hbs
            | cons _ _ => simp at hw
          | cont _ => simp [walk, hks, hbs] at hw
          | list _ => simp [walk, hks, hbs] at hw
        | cont cks =>
          have hk0 : k = [] := by
            by_cases h0 : k = []
            · exact h0
            · simp [keyFits, h0] at hc
          subst hk0
          cases d with
          | leaf _ => simp [walk, hks, hbs] at hw
          | list _ => simp [walk, hks, hbs] at hw
          | cont ob =>
            cases ob with
            | none => simp [walk, hks, hbs] at hw
            | some cb =>
              simp only [walk, hks, hbs] at hw
              have hc' : checkSegs cks rest = none := by
                cases rest with
                | nil => simp [checkSegs]
                | cons s r => simpa [keyFits] using hc
              exact .cont ks b i cks cb rest l hks hbs (walk_reach rest cks cb l hc' hw)
        | list n lks =>
          cases d with
          | leaf _ => simp [walk, hks, hbs] at hw
          | cont _ => simp [walk, hks, hbs] at hw
          | list rows =>
            cases rows with
            | nil => simp [walk, hks, hbs] at hw
            | cons r rs =>
              simp only [walk, hks, hbs] at hw
              by_cases hk0 : k = []
              · subst hk0
                simp only [List.isEmpty_nil, if_true] at hw
                cases rest with
                | nil =>
                  simp only [List.isEmpty_nil, if_true, Res.found.injEq] at hw; subst hw
                  exact .list ks b i n lks (r :: rs) hks hbs (by simp)
                | cons _ _ => simp at hw
              · have hke : k.isEmpty = false := by cases k with | nil => exact absurd rfl hk0 | cons _ _ => rfl
                simp only [hke, Bool.false_eq_true, if_false] at hw
                have hlen : k.length = n := by
                  by_cases hl : k.length = n
                  · exact hl
                  · simp [keyFits, hke, hl] at hc
                cases hf : findRow k (r :: rs) with
                | none => simp [hf] at hw
                | some eb =>
                  simp only [hf] at hw
                  have hc' : checkSegs lks rest = none := by
                    cases rest with
                    | nil => simp [checkSegs]
                    | cons s r' => simpa [keyFits, hke, hlen] using hc
                  exact .entry ks b i n lks (r :: rs) k eb rest l hks hbs hk0 hlen
                    (findRow_mem k eb _ hf) (walk_reach rest lks eb l hc' hw)

/-- what is found is shaped by the schema it is found with -/
theorem walk_conforms : ∀ (p : List Seg) (ks : List Schema) (b : List Data) (ks' : List Schema) (b' : List Data),
    conformsBody ks b = true → walk ks b p = .found (.body ks' b') → conformsBody ks' b' = true
  | [], ks, b, ks', b', hcf, hw => by
    simp only [walk, Res.found.injEq, Loc.body.injEq] at hw; obtain ⟨h1, h2⟩ := hw; subst h1; subst h2; exact hcf
  | s :: rest, ks, b, ks', b', hcf, hw => by
    obtain ⟨i, k⟩ := s
    cases hks : ks[i]? with
    | none => simp [walk, hks] at hw
    | some sc =>
      cases hbs : b[i]? with
      | none => simp [walk, hks, hbs] at hw
      | some d =>
        have hcd := conformsBody_get ks b i sc d hks hbs hcf
        cases sc with
        | leaf dflt =>
          cases d with
          | leaf v => simp only [walk, hks, hbs] at hw; split at hw <;> simp at hw
          | cont _ => simp [walk, hks, hbs] at hw
          | list _ => simp [walk, hks, hbs] at hw
        | cont cks =>
          cases d with
          | leaf _ => simp [walk, hks, hbs] at hw
          | list _ => simp [walk, hks, hbs] at hw
          | cont ob =>
            cases ob with
            | none => simp [walk, hks, hbs] at hw
            | some cb =>
              simp only [walk, hks, hbs] at hw
              simp only [conforms] at hcd
              exact walk_conforms rest cks cb ks' b' hcd hw
        | list n lks =>
          cases d with
          | leaf _ => simp [walk, hks, hbs] at hw
          | cont _ => simp [walk, hks, hbs] at hw
          | list rows =>
            cases rows with
            | nil => simp [walk, hks, hbs] at hw
            | cons r rs =>
              simp only [walk, hks, hbs] at hw
              simp only [conforms] at hcd
              split at hw
              · split at hw <;> simp at hw
              · cases hf : findRow k (r :: rs) with
                | none => simp [hf] at hw
                | some eb =>
                  simp only [hf] at hw
                  exact walk_conforms rest lks eb ks' b' (conformsRows_findRow lks k _ eb hcd hf) hw

/-- the walk itself never says "no such name": that verdict comes from the schema alone -/
theorem walk_ne_notFound (ks : List Schema) (b : List Data) (p : List Seg) : walk ks b p ≠ .notFound := by
  fun_induction walk ks b p <;> simp_all

end YangVerif.Find
