/-
  Helper lemmas for C12 (begin/end balance, errors surface, nothing but End after a failure).
-/
import YangVerif.Model.EditTrace
set_option linter.unusedSimpArgs false
set_option linter.unusedVariables false
namespace YangVerif.EditTrace

/-! ### balance is compositional -/

theorem bal_append (x : Id) : ∀ (a b : List Ev) (n : Nat), bal x (a ++ b) n = (bal x a n).bind (bal x b)
  | [], b, n => by simp [bal]
  | e :: r, b, n => by
    cases e <;> simp only [List.cons_append, bal]
    · exact bal_append x r b _
    · exact bal_append x r b _
    · split
      · split
        · rfl
        · exact bal_append x r b _
      · exact bal_append x r b _
    · split
      · split
        · rfl
        · exact bal_append x r b _
      · exact bal_append x r b _
    · exact bal_append x r b _
    · exact bal_append x r b _

/-- every End (successful or not) closes one open Begin of that node -/
theorem bal_endAll (x : Id) (k : Nat) : ∀ (ids : List Id) (n b : Nat), ids.count x ≤ b →
    bal x (endAll k n ids).trace b = some (b - ids.count x)
  | [], n, b, _ => by simp [endAll, bal]
  | y :: r, n, b, h => by
    simp only [endAll]
    by_cases hy : y = x
    · subst hy
      simp only [List.count_cons_self] at h
      have ih := bal_endAll y k r (n + 1) (b - 1) (by omega)
      split <;> simp only [bal, if_true] <;> (have : b ≠ 0 := by omega) <;> simp [this, ih] <;> omega
    · have hc : (y :: r).count x = r.count x := by simp [List.count_cons, hy]
      rw [hc] at h ⊢
      have ih := bal_endAll x k r (n + 1) b h
      split <;> simp [bal, hy, ih]

/-- a group of Begins: on success every node of the group is open once more; on failure the ones
    already begun are closed again -/
theorem bal_beginAll (x : Id) (k : Nat) : ∀ (ids : List Id) (n : Nat) (begun : List Id) (b : Nat),
    begun.count x ≤ b →
    bal x (beginAll k n ids begun).trace b =
      some (if (beginAll k n ids begun).ok then b + ids.count x else b - begun.count x)
  | [], n, begun, b, _ => by simp [beginAll, bal]
  | y :: r, n, begun, b, h => by
    simp only [beginAll]
    by_cases hf : fails k n = true
    · simp only [hf, if_true, bal, Bool.false_eq_true, if_false]
      exact bal_endAll x k begun (n + 1) b h
    · simp only [hf, Bool.false_eq_true, if_false, bal]
      by_cases hy : y = x
      · subst hy
        have ih := bal_beginAll y k r (n + 1) (begun ++ [y]) (b + 1) (by simp [List.count_append]; omega)
        simp only [if_true, ih]
        by_cases hok : (beginAll k (n + 1) r (begun ++ [y])).ok = true
        · simp [hok]; omega
        · simp [hok, List.count_append]
      · have ih := bal_beginAll x k r (n + 1) (begun ++ [y]) b (by simp [List.count_append, hy]; exact h)
        simp only [hy, if_false, ih]
        by_cases hok : (beginAll k (n + 1) r (begun ++ [y])).ok = true
        · simp [hok, List.count_cons, hy]
        · simp [hok, List.count_append, List.count_cons, hy]

mutual
  /-- **an `enter` restores the balance of every node**, on every exit path and for every failing position -/
  theorem bal_runScn (x : Id) (k : Nat) : ∀ (s : Scn) (n b : Nat), bal x (runScn k n s).trace b = some b
    | .mk ids steps, n, b => by
      simp only [runScn]
      have hb := bal_beginAll x k ids n [] b (by simp)
      by_cases hok : (beginAll k n ids []).ok = true
      · simp only [hok, Bool.not_true, Bool.false_eq_true, if_false]
        simp only [hok, if_true] at hb
        rw [bal_append, bal_append, hb]
        simp only [Option.bind_some]
        rw [bal_runSteps x k steps _ _]
        simp only [Option.bind_some]
        rw [bal_endAll x k ids _ _ (by omega)]
        simp
      · simp only [hok, Bool.not_false, if_true]
        simp only [hok, Bool.false_eq_true, if_false, List.count_nil, Nat.sub_zero] at hb
        exact hb
  theorem bal_runSteps (x : Id) (k : Nat) : ∀ (steps : List Step) (n b : Nat), bal x (runSteps k n steps).trace b = some b
    | [], n, b => by simp [runSteps, bal]
    | .call l :: r, n, b => by
      simp only [runSteps]
      split
      · simp [bal]
      · simp only [bal]; exact bal_runSteps x k r _ _
    | .sub s :: r, n, b => by
      simp only [runSteps]
      split
      · exact bal_runScn x k s n b
      · rw [bal_append, bal_runScn x k s n b]
        simp only [Option.bind_some]
        exact bal_runSteps x k r _ _
end

/-! ### failures: the result says so, and only End notifications follow -/

def noFail (t : List Ev) : Bool := t.all (fun e => !isFail e)
def allEnds (t : List Ev) : Bool := t.all isEnd

theorem onlyEnds_append_noFail : ∀ (a b : List Ev), noFail a = true →
    onlyEndsAfterFailure (a ++ b) = onlyEndsAfterFailure b
  | [], b, _ => rfl
  | e :: r, b, h => by
    simp only [noFail, List.all_cons, Bool.and_eq_true, Bool.not_eq_true'] at h
    simp only [List.cons_append, onlyEndsAfterFailure, h.1, Bool.false_eq_true, if_false]
    exact onlyEnds_append_noFail r b (by simpa [noFail] using h.2)

theorem onlyEnds_of_allEnds : ∀ (t : List Ev), allEnds t = true → onlyEndsAfterFailure t = true
  | [], _ => rfl
  | e :: r, h => by
    simp only [allEnds, List.all_cons, Bool.and_eq_true] at h
    simp only [onlyEndsAfterFailure]
    split
    · exact h.2
    · exact onlyEnds_of_allEnds r (by simpa [allEnds] using h.2)

theorem onlyEnds_append_ends : ∀ (a b : List Ev), onlyEndsAfterFailure a = true → allEnds b = true →
    onlyEndsAfterFailure (a ++ b) = true
  | [], b, _, hb => by simpa using onlyEnds_of_allEnds b hb
  | e :: r, b, ha, hb => by
    simp only [onlyEndsAfterFailure] at ha
    simp only [List.cons_append, onlyEndsAfterFailure]
    by_cases hf : isFail e = true
    · simp only [hf, if_true] at ha ⊢
      simp only [List.all_append, Bool.and_eq_true]
      exact ⟨ha, hb⟩
    · simp only [hf, Bool.false_eq_true, if_false] at ha ⊢
      exact onlyEnds_append_ends r b ha hb

theorem endAll_shape (k : Nat) : ∀ (ids : List Id) (n : Nat),
    allEnds (endAll k n ids).trace = true ∧ (endAll k n ids).ok = noFail (endAll k n ids).trace
  | [], n => by simp [endAll, allEnds, noFail]
  | y :: r, n => by
    obtain ⟨h1, h2⟩ := endAll_shape k r (n + 1)
    simp only [endAll]
    split
    · simp [allEnds, noFail, isEnd, isFail] at h1 ⊢; exact h1
    · simp only [allEnds, noFail, List.all_cons, isEnd, isFail, Bool.not_false, Bool.true_and] at h1 h2 ⊢
      exact ⟨h1, h2⟩

theorem beginAll_shape (k : Nat) : ∀ (ids : List Id) (n : Nat) (begun : List Id),
    onlyEndsAfterFailure (beginAll k n ids begun).trace = true ∧
    (beginAll k n ids begun).ok = noFail (beginAll k n ids begun).trace
  | [], n, begun => by simp [beginAll, onlyEndsAfterFailure, noFail]
  | y :: r, n, begun => by
    simp only [beginAll]
    split
    · obtain ⟨h1, _⟩ := endAll_shape k begun (n + 1)
      simp only [onlyEndsAfterFailure, isFail, if_true, noFail, List.all_cons, Bool.not_true, Bool.false_and]
      exact ⟨by simpa [allEnds] using h1, trivial⟩
    · obtain ⟨h1, h2⟩ := beginAll_shape k r (n + 1) (begun ++ [y])
      simp only [onlyEndsAfterFailure, isFail, Bool.false_eq_true, if_false, noFail, List.all_cons, Bool.not_false,
        Bool.true_and] at h1 h2 ⊢
      exact ⟨h1, h2⟩

theorem noFail_append (a b : List Ev) : noFail (a ++ b) = (noFail a && noFail b) := by
  simp [noFail, List.all_append]

mutual
  theorem runScn_shape (k : Nat) : ∀ (s : Scn) (n : Nat),
      onlyEndsAfterFailure (runScn k n s).trace = true ∧ (runScn k n s).ok = noFail (runScn k n s).trace
    | .mk ids steps, n => by
      simp only [runScn]
      obtain ⟨hb1, hb2⟩ := beginAll_shape k ids n []
      by_cases hok : (beginAll k n ids []).ok = true
      · simp only [hok, Bool.not_true, Bool.false_eq_true, if_false]
        obtain ⟨hs1, hs2⟩ := runSteps_shape k steps (beginAll k n ids []).n
        obtain ⟨he1, he2⟩ := endAll_shape k ids (runSteps k (beginAll k n ids []).n steps).n
        have hnb : noFail (beginAll k n ids []).trace = true := by rw [← hb2]; exact hok
        refine ⟨?_, ?_⟩
        · rw [List.append_assoc, onlyEnds_append_noFail _ _ hnb]
          exact onlyEnds_append_ends _ _ hs1 he1
        · rw [noFail_append, noFail_append, hnb, ← hs2, ← he2]; simp
      · have hf : (beginAll k n ids []).ok = false := by simpa using hok
        simp only [hf, Bool.not_false, if_true]
        exact ⟨hb1, by rw [← hb2, hf]⟩
  theorem runSteps_shape (k : Nat) : ∀ (steps : List Step) (n : Nat),
      onlyEndsAfterFailure (runSteps k n steps).trace = true ∧ (runSteps k n steps).ok = noFail (runSteps k n steps).trace
    | [], n => by simp [runSteps, onlyEndsAfterFailure, noFail]
    | .call l :: r, n => by
      simp only [runSteps]
      split
      · simp [onlyEndsAfterFailure, isFail, noFail]
      · obtain ⟨h1, h2⟩ := runSteps_shape k r (n + 1)
        simp only [onlyEndsAfterFailure, isFail, Bool.false_eq_true, if_false, noFail, List.all_cons, Bool.not_false,
          Bool.true_and] at h1 h2 ⊢
        exact ⟨h1, h2⟩
    | .sub s :: r, n => by
      simp only [runSteps]
      obtain ⟨h1, h2⟩ := runScn_shape k s n
      by_cases hok : (runScn k n s).ok = true
      · simp only [hok, Bool.not_true, Bool.false_eq_true, if_false]
        obtain ⟨r1, r2⟩ := runSteps_shape k r (runScn k n s).n
        have hn : noFail (runScn k n s).trace = true := by rw [← h2]; exact hok
        refine ⟨by rw [onlyEnds_append_noFail _ _ hn]; exact r1, ?_⟩
        rw [noFail_append, hn, ← r2]; simp
      · have hf : (runScn k n s).ok = false := by simpa using hok
        simp only [hf, Bool.not_false, if_true]
        exact ⟨h1, by rw [← h2, hf]⟩
end

end YangVerif.EditTrace
