/-
  Helper lemmas for C09 (at most one case of a choice ever holds data).
-/
import YangVerif.Model.Choice
set_option linter.unusedSimpArgs false
set_option linter.unusedVariables false
namespace YangVerif.Choice

mutual
  theorem hasData_emptyOf : ∀ s : Schema, hasData (emptyOf s) = false
    | .leaf _ => by simp [emptyOf, hasData]
    | .cont _ => by simp [emptyOf, hasData]
    | .choice cs => by simp [emptyOf, hasData, casesHaveData_emptyCases cs]
  theorem bodyHasData_emptyBody : ∀ ks : List Schema, bodyHasData (emptyBody ks) = false
    | [] => by simp [emptyBody, bodyHasData]
    | s :: r => by simp [emptyBody, bodyHasData, hasData_emptyOf s, bodyHasData_emptyBody r]
  theorem casesHaveData_emptyCases : ∀ cs : List (List Schema), casesHaveData (emptyCases cs) = false
    | [] => by simp [emptyCases, casesHaveData]
    | c :: r => by simp [emptyCases, casesHaveData, bodyHasData_emptyBody c, casesHaveData_emptyCases r]
end

theorem casesWithData_emptyCases : ∀ cs : List (List Schema), casesWithData (emptyCases cs) = 0
  | [] => by simp [emptyCases, casesWithData]
  | c :: r => by simp [emptyCases, casesWithData, bodyHasData_emptyBody c, casesWithData_emptyCases r]

mutual
  theorem oneCase_emptyOf : ∀ s : Schema, oneCase (emptyOf s) = true
    | .leaf _ => by simp [emptyOf, oneCase]
    | .cont _ => by simp [emptyOf, oneCase]
    | .choice cs => by simp [emptyOf, oneCase, casesWithData_emptyCases cs, oneCaseCases_emptyCases cs]
  theorem oneCaseBody_emptyBody : ∀ ks : List Schema, oneCaseBody (emptyBody ks) = true
    | [] => by simp [emptyBody, oneCaseBody]
    | s :: r => by simp [emptyBody, oneCaseBody, oneCase_emptyOf s, oneCaseBody_emptyBody r]
  theorem oneCaseCases_emptyCases : ∀ cs : List (List Schema), oneCaseCases (emptyCases cs) = true
    | [] => by simp [emptyCases, oneCaseCases]
    | c :: r => by simp [emptyCases, oneCaseCases, oneCaseBody_emptyBody c, oneCaseCases_emptyCases r]
end

mutual
  theorem conforms_emptyOf : ∀ s : Schema, conforms s (emptyOf s) = true
    | .leaf _ => by simp [emptyOf, conforms]
    | .cont _ => by simp [emptyOf, conforms]
    | .choice cs => by simp [emptyOf, conforms, conformsCases_emptyCases cs]
  theorem conformsBody_emptyBody : ∀ ks : List Schema, conformsBody ks (emptyBody ks) = true
    | [] => by simp [emptyBody, conformsBody]
    | s :: r => by simp [emptyBody, conformsBody, conforms_emptyOf s, conformsBody_emptyBody r]
  theorem conformsCases_emptyCases : ∀ cs : List (List Schema), conformsCases cs (emptyCases cs) = true
    | [] => by simp [emptyCases, conformsCases]
    | c :: r => by simp [emptyCases, conformsCases, conformsBody_emptyBody c, conformsCases_emptyCases r]
end

/-- clearing the aligned cases leaves no case with data -/
theorem clearCases_spec : ∀ (cs : List (List Schema)) (ts : List (List Data)), conformsCases cs ts = true →
    casesWithData (clearCases cs ts) = 0 ∧ oneCaseCases (clearCases cs ts) = true ∧
    chooseIdx (clearCases cs ts) = none
  | [], [], _ => by simp [clearCases, casesWithData, oneCaseCases, chooseIdx]
  | [], _ :: _, h => by simp [conformsCases] at h
  | _ :: _, [], h => by simp [conformsCases] at h
  | c :: cs, t :: ts, h => by
    simp only [conformsCases, Bool.and_eq_true] at h
    obtain ⟨h1, h2, h3⟩ := clearCases_spec cs ts h.2
    simp [clearCases, casesWithData, oneCaseCases, chooseIdx, bodyHasData_emptyBody c, oneCaseBody_emptyBody c, h1, h2, h3]

mutual
  /-- **upsert preserves the invariant**, for every schema (choices several per container, nested in
      cases, at any depth) and every source tree -/
  theorem oneCase_edit : ∀ (s : Schema) (new : Bool) (d t : Data), conforms s d = true → conforms s t = true →
      oneCase t = true → oneCase (edit new s d t) = true
    | .leaf dflt, new, .leaf sv, t, _, _, ho => by
      simp only [edit]
      split
      · simp [oneCase]
      · exact ho
    | .leaf _, _, .cont _, _, hd, _, _ => by simp [conforms] at hd
    | .leaf _, _, .choice _, _, hd, _, _ => by simp [conforms] at hd
    | .cont _, _, .leaf _, _, hd, _, _ => by simp [conforms] at hd
    | .cont _, _, .choice _, _, hd, _, _ => by simp [conforms] at hd
    | .cont _, _, .cont none, t, _, _, ho => by simpa [edit] using ho
    | .cont ks, _, .cont (some sb), .cont (some tb), hd, ht, ho => by
      simp only [conforms] at hd ht
      simp only [oneCase] at ho
      simp [edit, oneCase, oneCaseBody_editKids ks false sb tb hd ht ho]
    | .cont ks, _, .cont (some sb), .cont none, hd, _, _ => by
      simp only [conforms] at hd
      simp [edit, oneCase, oneCaseBody_editKids ks true sb _ hd (conformsBody_emptyBody ks) (oneCaseBody_emptyBody ks)]
    | .cont _, _, .cont (some _), .leaf _, _, ht, _ => by simp [conforms] at ht
    | .cont _, _, .cont (some _), .choice _, _, ht, _ => by simp [conforms] at ht
    | .choice _, _, .leaf _, _, hd, _, _ => by simp [conforms] at hd
    | .choice _, _, .cont _, _, hd, _, _ => by simp [conforms] at hd
    | .choice _, _, .choice _, .leaf _, _, ht, _ => by simp [conforms] at ht
    | .choice _, _, .choice _, .cont _, _, ht, _ => by simp [conforms] at ht
    | .choice cs, new, .choice sbs, .choice tbs, hd, ht, ho => by
      simp only [conforms] at hd ht
      simp only [oneCase, Bool.and_eq_true, decide_eq_true_eq] at ho
      simp only [edit, oneCase, Bool.and_eq_true, decide_eq_true_eq]
      cases hc : chooseIdx sbs with
      | none => simpa [editCases] using ho
      | some i => exact oneCaseCases_editCases cs new sbs tbs i hd ht ho.2
  theorem oneCaseBody_editKids : ∀ (ks : List Schema) (new : Bool) (ds ts : List Data), conformsBody ks ds = true →
      conformsBody ks ts = true → oneCaseBody ts = true → oneCaseBody (editKids new ks ds ts) = true
    | [], _, _, ts, _, _, ho => by simpa [editKids] using ho
    | _ :: _, _, [], ts, hd, _, _ => by simp [conformsBody] at hd
    | _ :: _, _, _ :: _, [], _, ht, _ => by simp [conformsBody] at ht
    | s :: ss, new, d :: ds, t :: ts, hd, ht, ho => by
      simp only [conformsBody, Bool.and_eq_true] at hd ht
      simp only [oneCaseBody, Bool.and_eq_true] at ho
      simp [editKids, oneCaseBody, oneCase_edit s new d t hd.1 ht.1 ho.1,
        oneCaseBody_editKids ss new ds ts hd.2 ht.2 ho.2]
  /-- what editCases builds: the cases before the chosen one are cleared, the chosen one is merged,
      the ones after it are cleared -/
  theorem oneCaseCases_editCases : ∀ (cs : List (List Schema)) (new : Bool) (ss ts : List (List Data)) (i : Nat),
      conformsCases cs ss = true → conformsCases cs ts = true → oneCaseCases ts = true →
      casesWithData (editCases new cs ss ts (some i)) ≤ 1 ∧ oneCaseCases (editCases new cs ss ts (some i)) = true
    | [], _, [], [], i, _, _, _ => by cases i <;> simp [editCases, casesWithData, oneCaseCases]
    | [], _, _ :: _, _, _, h, _, _ => by simp [conformsCases] at h
    | [], _, [], _ :: _, _, _, h, _ => by simp [conformsCases] at h
    | _ :: _, _, [], _, _, h, _, _ => by simp [conformsCases] at h
    | _ :: _, _, _ :: _, [], _, _, h, _ => by simp [conformsCases] at h
    | c :: cs, new, s :: ss, t :: ts, 0, hs, ht, ho => by
      simp only [conformsCases, Bool.and_eq_true] at hs ht
      simp only [oneCaseCases, Bool.and_eq_true] at ho
      obtain ⟨h1, h2, _⟩ := clearCases_spec cs ts ht.2
      simp only [editCases, casesWithData, oneCaseCases, h1, h2, oneCaseBody_editKids c new s t hs.1 ht.1 ho.1,
        Bool.and_self, and_true]
      split <;> omega
    | c :: cs, new, s :: ss, t :: ts, i + 1, hs, ht, ho => by
      simp only [conformsCases, Bool.and_eq_true] at hs ht
      simp only [oneCaseCases, Bool.and_eq_true] at ho
      obtain ⟨h1, h2⟩ := oneCaseCases_editCases cs new ss ts i hs.2 ht.2 ho.2
      simp only [editCases, casesWithData, oneCaseCases, bodyHasData_emptyBody c, oneCaseBody_emptyBody c, h2,
        Bool.false_eq_true, if_false, Bool.and_self]
      exact ⟨by omega, trivial⟩
end

end YangVerif.Choice

namespace YangVerif.Choice

theorem chooseIdx_isSome_iff : ∀ cs : List (List Data), (chooseIdx cs).isSome = casesHaveData cs
  | [] => by simp [chooseIdx, casesHaveData]
  | c :: r => by
    simp only [chooseIdx, casesHaveData]
    by_cases h : bodyHasData c = true
    · simp [h]
    · simp [h, chooseIdx_isSome_iff r]

mutual
  /-- what the source holds, the target holds afterwards -/
  theorem hasData_edit : ∀ (s : Schema) (new : Bool) (d t : Data), conforms s d = true → conforms s t = true →
      hasData d = true → hasData (edit new s d t) = true
    | .leaf _, _, .leaf (some v), _, _, _, _ => by simp [edit, hasData]
    | .leaf _, _, .leaf none, _, _, _, h => by simp [hasData] at h
    | .leaf _, _, .cont _, _, hd, _, _ => by simp [conforms] at hd
    | .leaf _, _, .choice _, _, hd, _, _ => by simp [conforms] at hd
    | .cont _, _, .leaf _, _, hd, _, _ => by simp [conforms] at hd
    | .cont _, _, .choice _, _, hd, _, _ => by simp [conforms] at hd
    | .cont _, _, .cont none, _, _, _, h => by simp [hasData] at h
    | .cont _, _, .cont (some _), .cont (some _), _, _, _ => by simp [edit, hasData]
    | .cont _, _, .cont (some _), .cont none, _, _, _ => by simp [edit, hasData]
    | .cont _, _, .cont (some _), .leaf _, _, ht, _ => by simp [conforms] at ht
    | .cont _, _, .cont (some _), .choice _, _, ht, _ => by simp [conforms] at ht
    | .choice _, _, .leaf _, _, hd, _, _ => by simp [conforms] at hd
    | .choice _, _, .cont _, _, hd, _, _ => by simp [conforms] at hd
    | .choice _, _, .choice _, .leaf _, _, ht, _ => by simp [conforms] at ht
    | .choice _, _, .choice _, .cont _, _, ht, _ => by simp [conforms] at ht
    | .choice cs, new, .choice sbs, .choice tbs, hd, ht, h => by
      simp only [conforms] at hd ht
      simp only [hasData] at h
      simp only [edit, hasData]
      have hs : (chooseIdx sbs).isSome = true := by rw [chooseIdx_isSome_iff]; exact h
      cases hc : chooseIdx sbs with
      | none => simp [hc] at hs
      | some i =>
        have := chooseIdx_editCases cs new sbs tbs i hd ht hc
        rw [← chooseIdx_isSome_iff, this]; rfl
  theorem bodyHasData_editKids : ∀ (ks : List Schema) (new : Bool) (ds ts : List Data), conformsBody ks ds = true →
      conformsBody ks ts = true → bodyHasData ds = true → bodyHasData (editKids new ks ds ts) = true
    | [], _, [], _, _, _, h => by simp [bodyHasData] at h
    | [], _, _ :: _, _, hd, _, _ => by simp [conformsBody] at hd
    | _ :: _, _, [], _, hd, _, _ => by simp [conformsBody] at hd
    | _ :: _, _, _ :: _, [], _, ht, _ => by simp [conformsBody] at ht
    | s :: ss, new, d :: ds, t :: ts, hd, ht, h => by
      simp only [conformsBody, Bool.and_eq_true] at hd ht
      simp only [bodyHasData, Bool.or_eq_true] at h
      simp only [editKids, bodyHasData, Bool.or_eq_true]
      rcases h with h | h
      · exact Or.inl (hasData_edit s new d t hd.1 ht.1 h)
      · exact Or.inr (bodyHasData_editKids ss new ds ts hd.2 ht.2 h)
  /-- **the surviving case is the one the source wrote** -/
  theorem chooseIdx_editCases : ∀ (cs : List (List Schema)) (new : Bool) (ss ts : List (List Data)) (i : Nat),
      conformsCases cs ss = true → conformsCases cs ts = true → chooseIdx ss = some i →
      chooseIdx (editCases new cs ss ts (some i)) = some i
    | [], _, [], _, _, _, _, h => by simp [chooseIdx] at h
    | [], _, _ :: _, _, _, hs, _, _ => by simp [conformsCases] at hs
    | _ :: _, _, [], _, _, hs, _, _ => by simp [conformsCases] at hs
    | _ :: _, _, _ :: _, [], _, _, ht, _ => by simp [conformsCases] at ht
    | c :: cs, new, s :: ss, t :: ts, 0, hs, ht, h => by
      simp only [conformsCases, Bool.and_eq_true] at hs ht
      simp only [chooseIdx] at h
      by_cases hb : bodyHasData s = true
      · simp [editCases, chooseIdx, bodyHasData_editKids c new s t hs.1 ht.1 hb]
      · simp only [hb, Bool.false_eq_true, if_false] at h
        cases hh : chooseIdx ss <;> simp [hh] at h
    | c :: cs, new, s :: ss, t :: ts, i + 1, hs, ht, h => by
      simp only [conformsCases, Bool.and_eq_true] at hs ht
      simp only [chooseIdx] at h
      by_cases hb : bodyHasData s = true
      · simp [hb] at h
      · simp only [hb, Bool.false_eq_true, if_false] at h
        have hi : chooseIdx ss = some i := by
          cases hh : chooseIdx ss with
          | none => simp [hh] at h
          | some j => simp [hh] at h; subst h; rfl
        simp [editCases, chooseIdx, bodyHasData_emptyBody c, chooseIdx_editCases cs new ss ts i hs.2 ht.2 hi]
end

end YangVerif.Choice

namespace YangVerif.Choice

theorem conformsCases_clearCases : ∀ (cs : List (List Schema)) (ts : List (List Data)), conformsCases cs ts = true →
    conformsCases cs (clearCases cs ts) = true
  | [], [], _ => by simp [clearCases, conformsCases]
  | [], _ :: _, h => by simp [conformsCases] at h
  | _ :: _, [], h => by simp [conformsCases] at h
  | c :: cs, t :: ts, h => by
    simp only [conformsCases, Bool.and_eq_true] at h
    simp [clearCases, conformsCases, conformsBody_emptyBody c, conformsCases_clearCases cs ts h.2]

mutual
  theorem conforms_edit : ∀ (s : Schema) (new : Bool) (d t : Data), conforms s d = true → conforms s t = true →
      conforms s (edit new s d t) = true
    | .leaf dflt, new, .leaf sv, t, _, ht => by
      simp only [edit]
      split
      · simp [conforms]
      · exact ht
    | .leaf _, _, .cont _, _, hd, _ => by simp [conforms] at hd
    | .leaf _, _, .choice _, _, hd, _ => by simp [conforms] at hd
    | .cont _, _, .leaf _, _, hd, _ => by simp [conforms] at hd
    | .cont _, _, .choice _, _, hd, _ => by simp [conforms] at hd
    | .cont _, _, .cont none, t, _, ht => by simpa [edit] using ht
    | .cont ks, _, .cont (some sb), .cont (some tb), hd, ht => by
      simp only [conforms] at hd ht
      simp [edit, conforms, conformsBody_editKids ks false sb tb hd ht]
    | .cont ks, _, .cont (some sb), .cont none, hd, _ => by
      simp only [conforms] at hd
      simp [edit, conforms, conformsBody_editKids ks true sb _ hd (conformsBody_emptyBody ks)]
    | .cont _, _, .cont (some _), .leaf _, _, ht => by simp [conforms] at ht
    | .cont _, _, .cont (some _), .choice _, _, ht => by simp [conforms] at ht
    | .choice _, _, .leaf _, _, hd, _ => by simp [conforms] at hd
    | .choice _, _, .cont _, _, hd, _ => by simp [conforms] at hd
    | .choice _, _, .choice _, .leaf _, _, ht => by simp [conforms] at ht
    | .choice _, _, .choice _, .cont _, _, ht => by simp [conforms] at ht
    | .choice cs, new, .choice sbs, .choice tbs, hd, ht => by
      simp only [conforms] at hd ht
      simp only [edit, conforms]
      cases hc : chooseIdx sbs with
      | none => simpa [editCases] using ht
      | some i => exact conformsCases_editCases cs new sbs tbs i hd ht
  theorem conformsBody_editKids : ∀ (ks : List Schema) (new : Bool) (ds ts : List Data), conformsBody ks ds = true →
      conformsBody ks ts = true → conformsBody ks (editKids new ks ds ts) = true
    | [], _, _, ts, _, ht => by simpa [editKids] using ht
    | _ :: _, _, [], ts, hd, _ => by simp [conformsBody] at hd
    | _ :: _, _, _ :: _, [], _, ht => by simp [conformsBody] at ht
    | s :: ss, new, d :: ds, t :: ts, hd, ht => by
      simp only [conformsBody, Bool.and_eq_true] at hd ht
      simp [editKids, conformsBody, conforms_edit s new d t hd.1 ht.1, conformsBody_editKids ss new ds ts hd.2 ht.2]
  theorem conformsCases_editCases : ∀ (cs : List (List Schema)) (new : Bool) (ss ts : List (List Data)) (i : Nat),
      conformsCases cs ss = true → conformsCases cs ts = true →
      conformsCases cs (editCases new cs ss ts (some i)) = true
    | [], _, [], [], i, _, _ => by cases i <;> simp [editCases, conformsCases]
    | [], _, _ :: _, _, _, h, _ => by simp [conformsCases] at h
    | [], _, [], _ :: _, _, _, h => by simp [conformsCases] at h
    | _ :: _, _, [], _, _, h, _ => by simp [conformsCases] at h
    | _ :: _, _, _ :: _, [], _, _, h => by simp [conformsCases] at h
    | c :: cs, new, s :: ss, t :: ts, 0, hs, ht => by
      simp only [conformsCases, Bool.and_eq_true] at hs ht
      simp [editCases, conformsCases, conformsBody_editKids c new s t hs.1 ht.1, conformsCases_clearCases cs ts ht.2]
    | c :: cs, new, s :: ss, t :: ts, i + 1, hs, ht => by
      simp only [conformsCases, Bool.and_eq_true] at hs ht
      simp [editCases, conformsCases, conformsBody_emptyBody c, conformsCases_editCases cs new ss ts i hs.2 ht.2]
end

end YangVerif.Choice
