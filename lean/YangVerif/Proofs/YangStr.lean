/-
  Helper lemmas for C06: every legal way of writing a text as a statement argument reads back as the text.
-/
import YangVerif.Model.YangStr
set_option linter.unusedSimpArgs false
set_option linter.unusedVariables false
namespace YangVerif.YStr

/-- the input continues with something that is neither white space nor the start of a comment -/
def Stops : Text → Prop
  | [] => False
  | c :: _ => isSpace c = false ∧ c ≠ 47

theorem skipWS_ne47 (f c : Nat) (r : Text) (h : c ≠ 47) :
    skipWS (f + 1) (c :: r) = if isSpace c then skipWS f r else c :: r := by
  rw [skipWS.eq_def]
  split <;> simp_all
theorem skipWS_block (f : Nat) (r : Text) : skipWS (f + 1) (47 :: 42 :: r) = skipWS f (dropBlock r) := by
  rw [skipWS.eq_def]; rfl
theorem skipWS_line (f : Nat) (r : Text) : skipWS (f + 1) (47 :: 47 :: r) = skipWS f (dropLine r) := by
  rw [skipWS.eq_def]; rfl

theorem skipWS_stops (f : Nat) (rest : Text) (h : Stops rest) : skipWS f rest = rest := by
  cases f with
  | zero => rfl
  | succ f =>
    match rest, h with
    | c :: r, ⟨h1, h2⟩ => rw [skipWS_ne47 f c r h2]; simp [h1]

theorem dropLine_body (b rest : Text) (h : 10 ∉ b) : dropLine (b ++ 10 :: rest) = rest := by
  induction b with
  | nil => simp [dropLine]
  | cons c r ih =>
    have hc : c ≠ 10 := fun e => h (by simp [e])
    have hr : 10 ∉ r := fun e => h (by simp [e])
    simp only [List.cons_append]
    rw [dropLine.eq_def]
    split
    · rename_i heq; simp at heq
    · rename_i heq; simp at heq; exact absurd heq.1 hc
    · rename_i c' r' heq; simp at heq; obtain ⟨rfl, rfl⟩ := heq; exact ih hr

theorem render_length_pos (i : SepItem) : 1 ≤ i.render.length := by
  cases i <;> simp [SepItem.render]

theorem skipWS_sep (s : List SepItem) (rest : Text) (h : Stops rest) (f : Nat) (hf : s.length + 1 ≤ f) :
    skipWS f (renderSep s ++ rest) = rest := by
  induction s generalizing f with
  | nil => simpa [renderSep] using skipWS_stops f rest h
  | cons i r ih =>
    obtain ⟨f1, rfl⟩ : ∃ f1, f = f1 + 1 := ⟨f - 1, by simp at hf; omega⟩
    have hf1 : r.length + 1 ≤ f1 := by simp at hf; omega
    simp only [renderSep, List.flatMap_cons, List.append_assoc]
    have ihr := ih f1 hf1
    simp only [renderSep] at ihr
    cases i with
    | space c hc =>
      simp only [SepItem.render, List.singleton_append]
      have h47 : c ≠ 47 := by intro e; subst e; simp [isSpace] at hc
      rw [skipWS_ne47 _ _ _ h47]
      simp [hc, ihr]
    | block b hb =>
      simp only [SepItem.render, List.cons_append, List.append_assoc]
      rw [skipWS_block, hb]
      exact ihr
    | line b hb =>
      simp only [SepItem.render, List.cons_append, List.append_assoc, List.singleton_append]
      rw [skipWS_line, dropLine_body b _ hb]
      exact ihr

theorem renderSep_length (s : List SepItem) : s.length ≤ (renderSep s).length := by
  induction s with
  | nil => simp [renderSep]
  | cons i r ih =>
    have := render_length_pos i
    simp only [renderSep, List.flatMap_cons, List.length_append, List.length_cons] at ih ⊢
    omega

theorem skipWS_sep_len (s : List SepItem) (rest : Text) (h : Stops rest) :
    skipWS (renderSep s ++ rest).length (renderSep s ++ rest) = rest := by
  apply skipWS_sep s rest h
  have := renderSep_length s
  have hr : 1 ≤ rest.length := by cases rest <;> simp [Stops] at h ⊢
  simp only [List.length_append]
  omega

/-! ### double- and single-quoted bodies -/

theorem scanDq_encChar (c : Nat) (e tail : Text) (h : EncChar c e) :
    scanDq (e ++ tail) = (scanDq tail).map fun (b, rest) => (e ++ b, rest) := by
  cases h with
  | plain c h1 h2 =>
    simp only [List.singleton_append]
    rw [scanDq.eq_def]
    split
    · rename_i heq; simp at heq
    · rename_i heq; simp at heq; exact absurd heq.1 h1
    · rename_i heq; simp at heq; exact absurd heq.1 h2
    · rename_i heq; simp at heq; exact absurd heq.1 h2
    · rename_i c' r' _ _ _ heq; simp at heq; obtain ⟨rfl, rfl⟩ := heq; rfl
  | quote => simp [scanDq]
  | backslash => simp [scanDq]
  | newline => simp [scanDq]
  | tab => simp [scanDq]

theorem scanDq_enc (t e rest : Text) (h : Enc t e) : scanDq (e ++ 34 :: rest) = some (e, rest) := by
  induction h with
  | nil => simp [scanDq]
  | cons hc ht ih =>
    rw [List.append_assoc, scanDq_encChar _ _ _ hc, ih]
    simp

theorem unescape_encChar (c : Nat) (e tail : Text) (h : EncChar c e) : unescape (e ++ tail) = c :: unescape tail := by
  cases h with
  | plain c h1 h2 =>
    simp only [List.singleton_append]
    rw [unescape.eq_def]
    split
    · rename_i heq; simp at heq; exact absurd heq.1 h2
    · rename_i heq; simp at heq; exact absurd heq.1 h2
    · rename_i heq; simp at heq; exact absurd heq.1 h2
    · rename_i heq; simp at heq; exact absurd heq.1 h2
    · rename_i c' r' _ _ _ _ heq; simp at heq; obtain ⟨rfl, rfl⟩ := heq; rfl
    · rename_i heq; simp at heq
  | quote => simp [unescape]
  | backslash => simp [unescape]
  | newline => simp [unescape]
  | tab => simp [unescape]

theorem unescape_enc (t e : Text) (h : Enc t e) : unescape e = t := by
  induction h with
  | nil => simp [unescape]
  | cons hc ht ih => rw [unescape_encChar _ _ _ hc, ih]

theorem scanSq_body (t rest : Text) (h : 39 ∉ t) : scanSq (t ++ 39 :: rest) = some (t, rest) := by
  induction t with
  | nil => simp [scanSq]
  | cons c r ih =>
    have hc : c ≠ 39 := fun e => h (by simp [e])
    have hr : 39 ∉ r := fun e => h (by simp [e])
    simp only [List.cons_append]
    rw [scanSq.eq_def]
    split
    · rename_i heq; simp at heq
    · rename_i heq; simp at heq; exact absurd heq.1 hc
    · rename_i c' r' _ heq; simp at heq; obtain ⟨rfl, rfl⟩ := heq; simp [ih hr]

theorem lexQuoted_succ (f : Nat) (cs : Text) :
    lexQuoted (f + 1) cs =
      match lexPiece cs with
      | none => none
      | some (v, rest) =>
        match skipWS rest.length rest with
        | 43 :: r2 => (lexQuoted f (skipWS r2.length r2)).map fun (v', rest') => (v ++ v', rest')
        | rest1 => some (v, rest1) := by
  rw [lexQuoted.eq_def]; rfl

end YangVerif.YStr
