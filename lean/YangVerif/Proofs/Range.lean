/-
  Helper lemmas for C05.
-/
import YangVerif.Model.Range
set_option linter.unusedSimpArgs false
namespace YangVerif.Range

theorem altContainsB_iff (tlo thi : Int) (e : REntry) (v : Int) :
    altContainsB tlo thi e v = true ↔ altContains tlo thi e v := by
  unfold altContainsB altContains
  cases hx : e.exact <;> simp
  · cases h1 : bval tlo thi e.min <;> cases h2 : bval tlo thi e.max <;> simp

theorem entryCheck_sound (tlo thi : Int) (e : REntry) (v : Int) (hlo : tlo ≤ v) (hhi : v ≤ thi)
    (h : entryCheck e v = true) : altContains tlo thi e v := by
  unfold entryCheck at h
  unfold altContains
  cases hx : e.exact with
  | num x => simp [hx, bval] at h ⊢; exact h.1.1
  | min => simp [hx] at h
  | max => simp [hx] at h
  | empty =>
    simp only [hx, Bool.true_and, Bool.and_eq_true] at h
    obtain ⟨h1, h2⟩ := h
    constructor
    · cases hm : e.min <;> simp [hm, bval] at h1 ⊢ <;> first | exact hlo | exact h1
    · cases hm : e.max <;> simp [hm, bval] at h2 ⊢ <;> first | exact hhi | exact h2

theorem entryCheck_complete (tlo thi : Int) (e : REntry) (v : Int) (hwf : e.wf = true)
    (h : altContains tlo thi e v) : entryCheck e v = true := by
  unfold REntry.wf at hwf
  unfold altContains at h
  unfold entryCheck
  cases hx : e.exact with
  | num x =>
    simp [hx] at hwf h ⊢
    simp [bval] at h
    simp [hwf.1, hwf.2, h]
  | min => simp [hx] at hwf
  | max => simp [hx] at hwf
  | empty =>
    simp [hx] at hwf h ⊢
    obtain ⟨⟨⟨w1, w2⟩, w3⟩, w4⟩ := hwf
    obtain ⟨h1, h2⟩ := h
    constructor
    · cases hm : e.min <;> simp [hm, bval] at h1 w1 w3 ⊢; exact h1
    · cases hm : e.max <;> simp [hm, bval] at h2 w2 w4 ⊢; exact h2

end YangVerif.Range
