/-
  Helper lemmas for Model/Window.lean: decimal texts read back as their number.
-/
import YangVerif.Model.Window
import YangVerif.Proofs.Path
set_option linter.unusedSimpArgs false
set_option linter.unusedVariables false
namespace YangVerif.Window
open YangVerif.Path

theorem digitsVal_append (a : Text) (c : Nat) : digitsVal (a ++ [c]) = digitsVal a * 10 + (c - 48) := by
  simp [digitsVal, List.foldl_append]

theorem digits_spec : ∀ n : Nat, digitsVal (digits n) = n ∧ (digits n).all isDigit = true ∧ digits n ≠ [] ∧
    (∀ c ∈ digits n, c ≠ 45 ∧ c ≠ 43 ∧ c ≠ 33) := by
  intro n
  induction n using Nat.strongRecOn with
  | _ n ih =>
    rw [digits]
    by_cases h : n < 10
    · simp only [h, dite_true]
      refine ⟨by simp [digitsVal], by simp [isDigit]; omega, by simp, ?_⟩
      intro c hc; simp at hc; subst hc; omega
    · simp only [h, dite_false]
      have ⟨h1, h2, h3, h4⟩ := ih (n / 10) (by omega)
      refine ⟨?_, ?_, by simp, ?_⟩
      · rw [digitsVal_append, h1]; omega
      · simp only [List.all_append, h2, Bool.true_and, List.all_cons, List.all_nil, Bool.and_true, isDigit]
        have : n % 10 < 10 := Nat.mod_lt _ (by omega)
        simp; omega
      · intro c hc
        rcases List.mem_append.1 hc with hc | hc
        · exact h4 c hc
        · simp at hc; subst hc
          have : n % 10 < 10 := Nat.mod_lt _ (by omega)
          omega

theorem parseNat_digits (n : Nat) : parseNat (digits n) = some n := by
  have ⟨h1, h2, h3, _⟩ := digits_spec n
  unfold parseNat
  have : (digits n).isEmpty = false := by cases hd : digits n with | nil => exact absurd hd h3 | cons _ _ => rfl
  simp [this, h2, h1]

theorem digits_head_ne_plus (n : Nat) : ∀ r, digits n ≠ 43 :: r := by
  intro r h
  have := (digits_spec n).2.2.2 43 (by rw [h]; simp)
  exact this.2.1 rfl

theorem stripPlus_digits (n : Nat) : stripPlus (digits n) = digits n := by
  cases hd : digits n with
  | nil => rfl
  | cons c r =>
    by_cases hc : c = 43
    · subst hc; exact absurd hd (digits_head_ne_plus n r)
    · unfold stripPlus
      split
      · next r' heq => injection heq with h1 _; exact absurd h1 hc
      · rfl

theorem parseInt64_digits (n : Nat) (h : n < 2 ^ 63) : parseInt64 (digits n) = some (Int.ofNat n) := by
  unfold parseInt64
  rw [stripPlus_digits, parseNat_digits]
  simp [h]

theorem digits_no_dash (n : Nat) : (45 : Nat) ∉ digits n := fun hm => ((digits_spec n).2.2.2 45 hm).1 rfl

end YangVerif.Window
