/-
  Helper lemmas for the shared data/editor model (C03, C18, …).
-/
import YangVerif.Model.Data
set_option linter.unusedSimpArgs false
set_option linter.unusedVariables false
namespace YangVerif.Data

/-! ### conformance of created nodes and of rows -/

mutual
  theorem conforms_freshOf : ∀ s : Schema, conforms s (freshOf s) = true
    | .leaf _ => by simp [freshOf, conforms]
    | .cont _ => by simp [freshOf, conforms]
    | .list _ _ => by simp [freshOf, conforms, conformsRows]
  theorem conformsBody_freshBody : ∀ ks : List Schema, conformsBody ks (freshBody ks) = true
    | [] => by simp [freshBody, conformsBody]
    | s :: r => by simp [freshBody, conformsBody, conforms_freshOf s, conformsBody_freshBody r]
end

theorem conformsRows_findRow (ks : List Schema) (k : Key) :
    ∀ (t : List (Key × List Data)) (b : List Data), conformsRows ks t = true → findRow k t = some b →
      conformsBody ks b = true
  | [], _, _, h => by simp [findRow] at h
  | (k', b') :: r, b, hc, h => by
    simp only [conformsRows, Bool.and_eq_true] at hc
    simp only [findRow] at h
    by_cases hk : k' = k
    · simp [hk] at h; subst h; exact hc.1
    · simp [hk] at h; exact conformsRows_findRow ks k r b hc.2 h

theorem conformsRows_setRow (ks : List Schema) (k : Key) (b : List Data) (hb : conformsBody ks b = true) :
    ∀ (t : List (Key × List Data)), conformsRows ks t = true → conformsRows ks (setRow k b t) = true
  | [], _ => by simp [setRow, conformsRows]
  | (k', b') :: r, hc => by
    simp only [conformsRows, Bool.and_eq_true] at hc
    simp only [setRow]
    by_cases hk : k' = k
    · simp [hk, conformsRows, hb, hc.2]
    · simp [hk, conformsRows, hc.1, conformsRows_setRow ks k b hb r hc.2]

theorem conformsRows_append (ks : List Schema) (k : Key) (b : List Data) (hb : conformsBody ks b = true) :
    ∀ (t : List (Key × List Data)), conformsRows ks t = true → conformsRows ks (t ++ [(k, b)]) = true
  | [], _ => by simp [conformsRows, hb]
  | (k', b') :: r, hc => by
    simp only [conformsRows, Bool.and_eq_true] at hc
    simp [conformsRows, hc.1, conformsRows_append ks k b hb r hc.2]

/-- rows part of "merge preserves conformance", given the body part for `ks` -/
theorem conformsRows_mergeRows (ks : List Schema)
    (hk : ∀ ds ts, conformsBody ks ds = true → conformsBody ks ts = true → conformsBody ks (mergeKids ks ds ts) = true) :
    ∀ (rows t : List (Key × List Data)), conformsRows ks rows = true → conformsRows ks t = true →
      conformsRows ks (mergeRows ks rows t) = true
  | [], t, _, ht => by simpa [mergeRows] using ht
  | (k, sb) :: rest, t, hr, ht => by
    simp only [conformsRows, Bool.and_eq_true] at hr
    simp only [mergeRows]
    cases hf : findRow k t with
    | some tb =>
      have htb := conformsRows_findRow ks k t tb ht hf
      exact conformsRows_mergeRows ks hk rest _ hr.2
        (conformsRows_setRow ks k _ (hk sb tb hr.1 htb) t ht)
    | none =>
      exact conformsRows_mergeRows ks hk rest _ hr.2
        (conformsRows_append ks k _ (hk sb _ hr.1 (conformsBody_freshBody ks)) t ht)

mutual
  theorem conforms_merge : ∀ (s : Schema) (d t : Data), conforms s d = true → conforms s t = true →
      conforms s (merge s d t) = true
    | .leaf _, .leaf (some v), t, _, _ => by simp [merge, conforms]
    | .leaf _, .leaf none, t, _, ht => by simpa [merge] using ht
    | .leaf _, .cont _, _, hd, _ => by simp [conforms] at hd
    | .leaf _, .list _, _, hd, _ => by simp [conforms] at hd
    | .cont _, .leaf _, _, hd, _ => by simp [conforms] at hd
    | .cont _, .list _, _, hd, _ => by simp [conforms] at hd
    | .cont _, .cont none, t, _, ht => by simpa [merge] using ht
    | .cont ks, .cont (some sb), .cont (some tb), hd, ht => by
      simp only [conforms] at hd ht
      simp [merge, conforms, conformsBody_mergeKids ks sb tb hd ht]
    | .cont ks, .cont (some sb), .cont none, hd, _ => by
      simp only [conforms] at hd
      simp [merge, conforms, conformsBody_mergeKids ks sb _ hd (conformsBody_freshBody ks)]
    | .cont _, .cont (some _), .leaf _, _, ht => by simp [conforms] at ht
    | .cont _, .cont (some _), .list _, _, ht => by simp [conforms] at ht
    | .list _ _, .leaf _, _, hd, _ => by simp [conforms] at hd
    | .list _ _, .cont _, _, hd, _ => by simp [conforms] at hd
    | .list _ _, .list _, .leaf _, _, ht => by simp [conforms] at ht
    | .list _ _, .list _, .cont _, _, ht => by simp [conforms] at ht
    | .list _ ks, .list srows, .list trows, hd, ht => by
      simp only [conforms] at hd ht
      simp only [merge, conforms]
      exact conformsRows_mergeRows ks (fun ds ts h1 h2 => conformsBody_mergeKids ks ds ts h1 h2) srows trows hd ht
  theorem conformsBody_mergeKids : ∀ (ks : List Schema) (ds ts : List Data), conformsBody ks ds = true →
      conformsBody ks ts = true → conformsBody ks (mergeKids ks ds ts) = true
    | [], [], [], _, _ => by simp [mergeKids, conformsBody]
    | [], [], _ :: _, _, ht => by simp [conformsBody] at ht
    | [], _ :: _, _, hd, _ => by simp [conformsBody] at hd
    | _ :: _, [], _, hd, _ => by simp [conformsBody] at hd
    | _ :: _, _ :: _, [], _, ht => by simp [conformsBody] at ht
    | s :: ss, d :: ds, t :: ts, hd, ht => by
      simp only [conformsBody, Bool.and_eq_true] at hd ht
      simp [mergeKids, conformsBody, conforms_merge s d t hd.1 ht.1, conformsBody_mergeKids ss ds ts hd.2 ht.2]
end

/-! ### the editor in upsert mode computes the merge -/

/-- rows loop, given the two body statements for `ks` -/
theorem editRows_upsert (ks : List Schema)
    (h2 : ∀ ds ts, conformsBody ks ds = true → conformsBody ks ts = true →
      editKids .upsert false ks ds ts = .ok (mergeKids ks ds ts))
    (h2' : ∀ ds, conformsBody ks ds = true →
      editKids .upsert true ks ds (emptyBody ks) = .ok (mergeKids ks ds (freshBody ks))) :
    ∀ (rows t : List (Key × List Data)), conformsRows ks rows = true → conformsRows ks t = true →
      editRows .upsert ks rows t = .ok (mergeRows ks rows t)
  | [], t, _, _ => by simp [editRows, mergeRows]
  | (k, sb) :: rest, t, hr, ht => by
    simp only [conformsRows, Bool.and_eq_true] at hr
    simp only [editRows, mergeRows]
    cases hf : findRow k t with
    | some tb =>
      have htb := conformsRows_findRow ks k t tb ht hf
      simp only [h2 sb tb hr.1 htb]
      exact editRows_upsert ks h2 h2' rest _ hr.2
        (conformsRows_setRow ks k _ (conformsBody_mergeKids ks sb tb hr.1 htb) t ht)
    | none =>
      simp only [h2' sb hr.1]
      exact editRows_upsert ks h2 h2' rest _ hr.2
        (conformsRows_append ks k _ (conformsBody_mergeKids ks sb _ hr.1 (conformsBody_freshBody ks)) t ht)

mutual
  theorem edit_upsert : ∀ (s : Schema) (d t : Data), conforms s d = true → conforms s t = true →
      edit .upsert false s d t = .ok (merge s d t)
    | .leaf _, .leaf (some v), t, _, _ => by simp [edit, merge]
    | .leaf _, .leaf none, t, _, _ => by simp [edit, merge]
    | .leaf _, .cont _, _, hd, _ => by simp [conforms] at hd
    | .leaf _, .list _, _, hd, _ => by simp [conforms] at hd
    | .cont _, .leaf _, _, hd, _ => by simp [conforms] at hd
    | .cont _, .list _, _, hd, _ => by simp [conforms] at hd
    | .cont _, .cont none, .leaf _, _, ht => by simp [conforms] at ht
    | .cont _, .cont none, .list _, _, ht => by simp [conforms] at ht
    | .cont _, .cont none, .cont _, _, _ => by simp [edit, merge]
    | .cont ks, .cont (some sb), .cont (some tb), hd, ht => by
      simp only [conforms] at hd ht
      simp [edit, merge, editKids_upsert ks sb tb hd ht, Except.map]
    | .cont ks, .cont (some sb), .cont none, hd, _ => by
      simp only [conforms] at hd
      simp [edit, merge, editKids_upsert_new ks sb hd, Except.map]
    | .cont _, .cont (some _), .leaf _, _, ht => by simp [conforms] at ht
    | .cont _, .cont (some _), .list _, _, ht => by simp [conforms] at ht
    | .list _ _, .leaf _, _, hd, _ => by simp [conforms] at hd
    | .list _ _, .cont _, _, hd, _ => by simp [conforms] at hd
    | .list _ _, .list _, .leaf _, _, ht => by simp [conforms] at ht
    | .list _ _, .list _, .cont _, _, ht => by simp [conforms] at ht
    | .list _ ks, .list [], .list trows, _, _ => by simp [edit, merge, mergeRows]
    | .list _ ks, .list (r :: rs), .list trows, hd, ht => by
      simp only [conforms] at hd ht
      have := editRows_upsert ks (fun ds ts h1 h2 => editKids_upsert ks ds ts h1 h2)
        (fun ds h1 => editKids_upsert_new ks ds h1) (r :: rs) trows hd ht
      simp [edit, merge, this, Except.map]
  /-- into a node that was just created: the unset leaves end up with their defaults -/
  theorem edit_upsert_new : ∀ (s : Schema) (d : Data), conforms s d = true →
      edit .upsert true s d (emptyOf s) = .ok (merge s d (freshOf s))
    | .leaf _, .leaf (some v), _ => by simp [edit, merge, emptyOf]
    | .leaf none, .leaf none, _ => by simp [edit, merge, emptyOf, freshOf]
    | .leaf (some x), .leaf none, _ => by simp [edit, merge, emptyOf, freshOf]
    | .leaf _, .cont _, hd => by simp [conforms] at hd
    | .leaf _, .list _, hd => by simp [conforms] at hd
    | .cont _, .leaf _, hd => by simp [conforms] at hd
    | .cont _, .list _, hd => by simp [conforms] at hd
    | .cont _, .cont none, _ => by simp [edit, merge, emptyOf, freshOf]
    | .cont ks, .cont (some sb), hd => by
      simp only [conforms] at hd
      simp [edit, merge, emptyOf, freshOf, editKids_upsert_new ks sb hd, Except.map]
    | .list _ _, .leaf _, hd => by simp [conforms] at hd
    | .list _ _, .cont _, hd => by simp [conforms] at hd
    | .list _ ks, .list [], _ => by simp [edit, merge, emptyOf, freshOf, mergeRows]
    | .list _ ks, .list (r :: rs), hd => by
      simp only [conforms] at hd
      have := editRows_upsert ks (fun ds ts h1 h2 => editKids_upsert ks ds ts h1 h2)
        (fun ds h1 => editKids_upsert_new ks ds h1) (r :: rs) [] hd (by simp [conformsRows])
      simp [edit, merge, emptyOf, freshOf, this, Except.map]
  theorem editKids_upsert : ∀ (ks : List Schema) (ds ts : List Data), conformsBody ks ds = true →
      conformsBody ks ts = true → editKids .upsert false ks ds ts = .ok (mergeKids ks ds ts)
    | [], [], [], _, _ => by simp [editKids, mergeKids]
    | [], [], _ :: _, _, ht => by simp [conformsBody] at ht
    | [], _ :: _, _, hd, _ => by simp [conformsBody] at hd
    | _ :: _, [], _, hd, _ => by simp [conformsBody] at hd
    | _ :: _, _ :: _, [], _, ht => by simp [conformsBody] at ht
    | s :: ss, d :: ds, t :: ts, hd, ht => by
      simp only [conformsBody, Bool.and_eq_true] at hd ht
      simp [editKids, mergeKids, edit_upsert s d t hd.1 ht.1, editKids_upsert ss ds ts hd.2 ht.2]
  theorem editKids_upsert_new : ∀ (ks : List Schema) (ds : List Data), conformsBody ks ds = true →
      editKids .upsert true ks ds (emptyBody ks) = .ok (mergeKids ks ds (freshBody ks))
    | [], [], _ => by simp [editKids, mergeKids, emptyBody, freshBody]
    | [], _ :: _, hd => by simp [conformsBody] at hd
    | _ :: _, [], hd => by simp [conformsBody] at hd
    | s :: ss, d :: ds, hd => by
      simp only [conformsBody, Bool.and_eq_true] at hd
      simp [editKids, mergeKids, emptyBody, freshBody, edit_upsert_new s d hd.1, editKids_upsert_new ss ds hd.2]
end

end YangVerif.Data

namespace YangVerif.Data

/-! ### keys of rows -/

theorem findRow_none_of_not_mem (k : Key) : ∀ (t : List (Key × List Data)), k ∉ keysOf t → findRow k t = none
  | [], _ => rfl
  | (k', b) :: r, h => by
    simp only [keysOf, List.map_cons, List.mem_cons, not_or] at h
    have hne : k' ≠ k := fun e => h.1 e.symm
    simp [findRow, hne, findRow_none_of_not_mem k r (by simpa [keysOf] using h.2)]

theorem not_mem_of_findRow_none (k : Key) : ∀ (t : List (Key × List Data)), findRow k t = none → k ∉ keysOf t
  | [], _ => by simp [keysOf]
  | (k', b) :: r, h => by
    simp only [findRow] at h
    by_cases hk : k' = k
    · simp [hk] at h
    · simp only [hk, if_false] at h
      have := not_mem_of_findRow_none k r h
      simp only [keysOf, List.map_cons, List.mem_cons, not_or]
      exact ⟨fun e => hk e.symm, by simpa [keysOf] using this⟩

theorem keysOf_setRow (k : Key) (b : List Data) : ∀ (t : List (Key × List Data)), keysOf (setRow k b t) = keysOf t
  | [] => rfl
  | (k', b') :: r => by
    simp only [setRow]
    by_cases hk : k' = k
    · simp [hk, keysOf]
    · simp only [hk, if_false, keysOf, List.map_cons, List.cons.injEq, true_and]
      exact keysOf_setRow k b r

theorem findRow_isSome_iff (k : Key) (t : List (Key × List Data)) : (findRow k t).isSome = true ↔ k ∈ keysOf t := by
  constructor
  · intro h
    apply Classical.byContradiction
    intro hn
    rw [findRow_none_of_not_mem k t hn] at h; cases h
  · intro h
    cases hf : findRow k t with
    | some _ => rfl
    | none => exact absurd h (not_mem_of_findRow_none k t hf)

/-! ### insert -/

/-- rows loop in insert mode: all keys new and pairwise different -/
theorem editRows_insert (ks : List Schema)
    (h2' : ∀ ds, conformsBody ks ds = true →
      editKids .upsert true ks ds (emptyBody ks) = .ok (mergeKids ks ds (freshBody ks))) :
    ∀ (rows t : List (Key × List Data)), conformsRows ks rows = true →
      (∀ k ∈ keysOf rows, k ∉ keysOf t) → (keysOf rows).Nodup →
      editRows .insert ks rows t = .ok (mergeRows ks rows t)
  | [], t, _, _, _ => by simp [editRows, mergeRows]
  | (k, sb) :: rest, t, hr, hdis, hnd => by
    simp only [conformsRows, Bool.and_eq_true] at hr
    simp only [keysOf, List.map_cons, List.nodup_cons] at hnd
    have hk : k ∉ keysOf t := hdis k (by simp [keysOf])
    have hf := findRow_none_of_not_mem k t hk
    simp only [editRows, mergeRows, hf, h2' sb hr.1]
    apply editRows_insert ks h2' rest _ hr.2 _ hnd.2
    intro k' hk'
    simp only [keysOf, List.map_append, List.map_cons, List.map_nil, List.mem_append, List.mem_singleton, not_or]
    refine ⟨by simpa [keysOf] using hdis k' (by simp [keysOf]; right; simpa [keysOf] using hk'), ?_⟩
    intro e; subst e; exact hnd.1 (by simpa [keysOf] using hk')

mutual
  /-- insert into a node that was just created -/
  theorem edit_insert_new : ∀ (s : Schema) (d : Data), conforms s d = true → uniqueKeys d = true →
      edit .insert true s d (emptyOf s) = .ok (merge s d (freshOf s))
    | .leaf _, .leaf (some v), _, _ => by simp [edit, merge, emptyOf]
    | .leaf none, .leaf none, _, _ => by simp [edit, merge, emptyOf, freshOf]
    | .leaf (some x), .leaf none, _, _ => by simp [edit, merge, emptyOf, freshOf]
    | .leaf _, .cont _, hd, _ => by simp [conforms] at hd
    | .leaf _, .list _, hd, _ => by simp [conforms] at hd
    | .cont _, .leaf _, hd, _ => by simp [conforms] at hd
    | .cont _, .list _, hd, _ => by simp [conforms] at hd
    | .cont _, .cont none, _, _ => by simp [edit, merge, emptyOf, freshOf]
    | .cont ks, .cont (some sb), hd, hu => by
      simp only [conforms] at hd
      simp only [uniqueKeys] at hu
      simp [edit, merge, emptyOf, freshOf, editKids_insert_new ks sb hd hu, Except.map]
    | .list _ _, .leaf _, hd, _ => by simp [conforms] at hd
    | .list _ _, .cont _, hd, _ => by simp [conforms] at hd
    | .list _ ks, .list [], _, _ => by simp [edit, merge, emptyOf, freshOf, mergeRows]
    | .list _ ks, .list (r :: rs), hd, hu => by
      simp only [conforms] at hd
      simp only [uniqueKeys, Bool.and_eq_true, decide_eq_true_eq] at hu
      have := editRows_insert ks (fun ds h1 => editKids_upsert_new ks ds h1) (r :: rs) [] hd
        (by intro k _; simp [keysOf]) hu.1
      simp [edit, merge, emptyOf, freshOf, this, Except.map]
  theorem editKids_insert_new : ∀ (ks : List Schema) (ds : List Data), conformsBody ks ds = true →
      uniqueKeysBody ds = true →
      editKids .insert true ks ds (emptyBody ks) = .ok (mergeKids ks ds (freshBody ks))
    | [], [], _, _ => by simp [editKids, mergeKids, emptyBody, freshBody]
    | [], _ :: _, hd, _ => by simp [conformsBody] at hd
    | _ :: _, [], hd, _ => by simp [conformsBody] at hd
    | s :: ss, d :: ds, hd, hu => by
      simp only [conformsBody, Bool.and_eq_true] at hd
      simp only [uniqueKeysBody, Bool.and_eq_true] at hu
      simp [editKids, mergeKids, emptyBody, freshBody, edit_insert_new s d hd.1 hu.1,
        editKids_insert_new ss ds hd.2 hu.2]
end

/-- one child at the level being inserted: succeeds with the merge iff nothing exists there -/
theorem edit_insert_child (s : Schema) (d t : Data) (hd : conforms s d = true) (ht : conforms s t = true)
    (hu : uniqueKeys d = true) :
    edit .insert false s d t = if insertOK s d t then .ok (merge s d t) else .error .conflict := by
  cases s with
  | leaf dflt =>
    cases d with
    | leaf v => cases v <;> simp [edit, merge, insertOK]
    | cont _ => simp [conforms] at hd
    | list _ => simp [conforms] at hd
  | cont ks =>
    cases d with
    | leaf _ => simp [conforms] at hd
    | list _ => simp [conforms] at hd
    | cont sb =>
      cases sb with
      | none =>
        cases t with
        | cont _ => simp [edit, merge, insertOK]
        | leaf _ => simp [conforms] at ht
        | list _ => simp [conforms] at ht
      | some sb =>
        cases t with
        | leaf _ => simp [conforms] at ht
        | list _ => simp [conforms] at ht
        | cont tb =>
          cases tb with
          | some tb => simp [edit, insertOK]
          | none =>
            simp only [conforms] at hd
            simp only [uniqueKeys] at hu
            simp [edit, merge, insertOK, editKids_insert_new ks sb hd hu, Except.map]
  | list n ks =>
    cases d with
    | leaf _ => simp [conforms] at hd
    | cont _ => simp [conforms] at hd
    | list rows =>
      cases t with
      | leaf _ => simp [conforms] at ht
      | cont _ => simp [conforms] at ht
      | list trows =>
        cases rows with
        | nil => simp [edit, merge, insertOK, mergeRows]
        | cons r rs =>
          cases trows with
          | cons _ _ => simp [edit, insertOK]
          | nil =>
            simp only [conforms] at hd
            simp only [uniqueKeys, Bool.and_eq_true, decide_eq_true_eq] at hu
            have := editRows_insert ks (fun ds h1 => editKids_upsert_new ks ds h1) (r :: rs) [] hd
              (by intro k _; simp [keysOf]) hu.1
            simp [edit, merge, insertOK, this, Except.map]

/-- **insert**: same result as the merge when nothing exists at the level being inserted,
    otherwise a conflict error -/
theorem editKids_insert : ∀ (ks : List Schema) (ds ts : List Data), conformsBody ks ds = true →
    conformsBody ks ts = true → uniqueKeysBody ds = true →
    editKids .insert false ks ds ts =
      if insertOKKids ks ds ts then .ok (mergeKids ks ds ts) else .error .conflict
  | [], [], [], _, _, _ => by simp [editKids, mergeKids, insertOKKids]
  | [], [], _ :: _, _, ht, _ => by simp [conformsBody] at ht
  | [], _ :: _, _, hd, _, _ => by simp [conformsBody] at hd
  | _ :: _, [], _, hd, _, _ => by simp [conformsBody] at hd
  | _ :: _, _ :: _, [], _, ht, _ => by simp [conformsBody] at ht
  | s :: ss, d :: ds, t :: ts, hd, ht, hu => by
    simp only [conformsBody, Bool.and_eq_true] at hd ht
    simp only [uniqueKeysBody, Bool.and_eq_true] at hu
    have h1 := edit_insert_child s d t hd.1 ht.1 hu.1
    have h2 := editKids_insert ss ds ts hd.2 ht.2 hu.2
    simp only [editKids, mergeKids, insertOKKids, h1, h2]
    by_cases ho : insertOK s d t = true
    · by_cases hr : insertOKKids ss ds ts = true
      · simp [ho, hr]
      · simp [ho, hr]
    · simp [ho]

end YangVerif.Data

namespace YangVerif.Data

/-! ### update -/

theorem findRow_setRow_isSome (k k' : Key) (b : List Data) (t : List (Key × List Data)) :
    (findRow k' (setRow k b t)).isSome = (findRow k' t).isSome := by
  have h1 := findRow_isSome_iff k' (setRow k b t)
  have h2 := findRow_isSome_iff k' t
  rw [keysOf_setRow] at h1
  cases ha : (findRow k' (setRow k b t)).isSome <;> cases hb : (findRow k' t).isSome <;> simp_all

/-- rows loop in update mode -/
theorem editRows_update (ks : List Schema)
    (h2 : ∀ ds ts, conformsBody ks ds = true → conformsBody ks ts = true →
      editKids .upsert false ks ds ts = .ok (mergeKids ks ds ts)) :
    ∀ (rows t : List (Key × List Data)), conformsRows ks rows = true → conformsRows ks t = true →
      editRows .update ks rows t =
        if rows.all (fun r => (findRow r.1 t).isSome) then .ok (mergeRows ks rows t) else .error .notFound
  | [], t, _, _ => by simp [editRows, mergeRows]
  | (k, sb) :: rest, t, hr, ht => by
    simp only [conformsRows, Bool.and_eq_true] at hr
    cases hf : findRow k t with
    | none => simp [editRows, hf]
    | some tb =>
      have htb := conformsRows_findRow ks k t tb ht hf
      simp only [editRows, mergeRows, List.all_cons, hf, h2 sb tb hr.1 htb, Option.isSome_some, Bool.true_and]
      rw [editRows_update ks h2 rest _ hr.2
        (conformsRows_setRow ks k _ (conformsBody_mergeKids ks sb tb hr.1 htb) t ht)]
      simp only [findRow_setRow_isSome]

mutual
  /-- **update**: the merge when everything addressed exists, otherwise not-found -/
  theorem edit_update : ∀ (s : Schema) (d t : Data), conforms s d = true → conforms s t = true →
      edit .update false s d t = if updateOK s d t then .ok (merge s d t) else .error .notFound
    | .leaf _, .leaf (some v), t, _, _ => by simp [edit, merge, updateOK]
    | .leaf _, .leaf none, t, _, _ => by simp [edit, merge, updateOK]
    | .leaf _, .cont _, _, hd, _ => by simp [conforms] at hd
    | .leaf _, .list _, _, hd, _ => by simp [conforms] at hd
    | .cont _, .leaf _, _, hd, _ => by simp [conforms] at hd
    | .cont _, .list _, _, hd, _ => by simp [conforms] at hd
    | .cont _, .cont none, .leaf _, _, ht => by simp [conforms] at ht
    | .cont _, .cont none, .list _, _, ht => by simp [conforms] at ht
    | .cont _, .cont none, .cont _, _, _ => by simp [edit, merge, updateOK]
    | .cont ks, .cont (some sb), .cont (some tb), hd, ht => by
      simp only [conforms] at hd ht
      simp only [edit, merge, updateOK, editKids_update ks sb tb hd ht]
      by_cases ho : updateOKKids ks sb tb = true <;> simp [ho, Except.map]
    | .cont ks, .cont (some sb), .cont none, _, _ => by simp [edit, updateOK]
    | .cont _, .cont (some _), .leaf _, _, ht => by simp [conforms] at ht
    | .cont _, .cont (some _), .list _, _, ht => by simp [conforms] at ht
    | .list _ _, .leaf _, _, hd, _ => by simp [conforms] at hd
    | .list _ _, .cont _, _, hd, _ => by simp [conforms] at hd
    | .list _ _, .list _, .leaf _, _, ht => by simp [conforms] at ht
    | .list _ _, .list _, .cont _, _, ht => by simp [conforms] at ht
    | .list _ ks, .list [], .list trows, _, _ => by simp [edit, merge, mergeRows, updateOK]
    | .list _ ks, .list (r :: rs), .list [], _, _ => by simp [edit, updateOK]
    | .list _ ks, .list (r :: rs), .list (t :: ts), hd, ht => by
      simp only [conforms] at hd ht
      have := editRows_update ks (fun ds ts h1 h2 => editKids_upsert ks ds ts h1 h2) (r :: rs) (t :: ts) hd ht
      simp only [edit, merge, updateOK, this]
      by_cases ho : (r :: rs).all (fun r => (findRow r.1 (t :: ts)).isSome) = true <;> simp [ho, Except.map]
  theorem editKids_update : ∀ (ks : List Schema) (ds ts : List Data), conformsBody ks ds = true →
      conformsBody ks ts = true →
      editKids .update false ks ds ts =
        if updateOKKids ks ds ts then .ok (mergeKids ks ds ts) else .error .notFound
    | [], [], [], _, _ => by simp [editKids, mergeKids, updateOKKids]
    | [], [], _ :: _, _, ht => by simp [conformsBody] at ht
    | [], _ :: _, _, hd, _ => by simp [conformsBody] at hd
    | _ :: _, [], _, hd, _ => by simp [conformsBody] at hd
    | _ :: _, _ :: _, [], _, ht => by simp [conformsBody] at ht
    | s :: ss, d :: ds, t :: ts, hd, ht => by
      simp only [conformsBody, Bool.and_eq_true] at hd ht
      simp only [editKids, mergeKids, updateOKKids, edit_update s d t hd.1 ht.1, editKids_update ss ds ts hd.2 ht.2]
      by_cases ho : updateOK s d t = true
      · by_cases hr : updateOKKids ss ds ts = true <;> simp [ho, hr]
      · simp [ho]
end

/-! ### frame: what the source does not mention is unchanged -/

/-- a source child that holds nothing leaves the target child as it is -/
theorem merge_absent : ∀ (s : Schema) (t : Data), merge s (emptyOf s) t = t
  | .leaf _, t => by simp [emptyOf, merge]
  | .cont _, t => by simp [emptyOf, merge]
  | .list _ _, .list r => by simp [emptyOf, merge, mergeRows]
  | .list _ _, .leaf _ => by simp [emptyOf, merge]
  | .list _ _, .cont _ => by simp [emptyOf, merge]

theorem findRow_setRow_other (k k' : Key) (b : List Data) (h : k' ≠ k) :
    ∀ t : List (Key × List Data), findRow k' (setRow k b t) = findRow k' t
  | [] => rfl
  | (k0, b0) :: r => by
    simp only [setRow]
    by_cases h0 : k0 = k
    · subst h0
      have : k0 ≠ k' := fun e => h e.symm
      simp [findRow, this]
    · simp only [h0, if_false, findRow]
      by_cases h1 : k0 = k'
      · simp [h1]
      · simp [h1, findRow_setRow_other k k' b h r]

theorem findRow_append_other (k k' : Key) (b : List Data) (h : k' ≠ k) :
    ∀ t : List (Key × List Data), findRow k' (t ++ [(k, b)]) = findRow k' t
  | [] => by
    have : k ≠ k' := fun e => h e.symm
    simp [findRow, this]
  | (k0, b0) :: r => by
    simp only [List.cons_append, findRow]
    by_cases h1 : k0 = k'
    · simp [h1]
    · simp [h1, findRow_append_other k k' b h r]

/-- list entries whose key the source does not mention keep their content -/
theorem mergeRows_frame (ks : List Schema) (k' : Key) :
    ∀ (rows t : List (Key × List Data)), k' ∉ keysOf rows → findRow k' (mergeRows ks rows t) = findRow k' t
  | [], t, _ => by simp [mergeRows]
  | (k, sb) :: rest, t, h => by
    simp only [keysOf, List.map_cons, List.mem_cons, not_or] at h
    simp only [mergeRows]
    cases hf : findRow k t with
    | some tb =>
      simp only
      rw [mergeRows_frame ks k' rest _ (by simpa [keysOf] using h.2), findRow_setRow_other k k' _ h.1]
    | none =>
      simp only
      rw [mergeRows_frame ks k' rest _ (by simpa [keysOf] using h.2), findRow_append_other k k' _ h.1]

/-! ### list keys stay unique -/

theorem keysOf_mergeRows_nodup (ks : List Schema) :
    ∀ (rows t : List (Key × List Data)), (keysOf t).Nodup → (keysOf (mergeRows ks rows t)).Nodup
  | [], t, h => by simpa [mergeRows] using h
  | (k, sb) :: rest, t, h => by
    simp only [mergeRows]
    cases hf : findRow k t with
    | some tb =>
      exact keysOf_mergeRows_nodup ks rest _ (by rw [keysOf_setRow]; exact h)
    | none =>
      apply keysOf_mergeRows_nodup ks rest _
      have hk := not_mem_of_findRow_none k t hf
      simp only [keysOf, List.map_append, List.map_cons, List.map_nil]
      rw [List.nodup_append]
      refine ⟨by simpa [keysOf] using h, by simp, ?_⟩
      intro a ha b hb
      simp at hb; subst hb
      intro e; subst e; exact hk (by simpa [keysOf] using ha)

end YangVerif.Data

namespace YangVerif.Data

/-! ### delete -/

theorem findRow_removeRow_self (k : Key) : ∀ (t : List (Key × List Data)), (keysOf t).Nodup →
    findRow k (removeRow k t) = none
  | [], _ => rfl
  | (k', b) :: r, h => by
    simp only [keysOf, List.map_cons, List.nodup_cons] at h
    simp only [removeRow]
    by_cases hk : k' = k
    · subst hk
      simp only [if_true]
      exact findRow_none_of_not_mem k' r (by simpa [keysOf] using h.1)
    · simp only [hk, if_false, findRow]
      exact findRow_removeRow_self k r (by simpa [keysOf] using h.2)

theorem findRow_removeRow_other (k k' : Key) (h : k' ≠ k) :
    ∀ (t : List (Key × List Data)), findRow k' (removeRow k t) = findRow k' t
  | [] => rfl
  | (k0, b) :: r => by
    simp only [removeRow]
    by_cases h0 : k0 = k
    · subst h0
      have : k0 ≠ k' := fun e => h e.symm
      simp [findRow, this]
    · simp only [h0, if_false, findRow]
      by_cases h1 : k0 = k'
      · simp [h1]
      · simp [h1, findRow_removeRow_other k k' h r]

theorem keysOf_removeRow_sublist (k : Key) : ∀ (t : List (Key × List Data)),
    (keysOf (removeRow k t)).Sublist (keysOf t)
  | [] => by simp [removeRow, keysOf]
  | (k', b) :: r => by
    simp only [removeRow]
    by_cases hk : k' = k
    · simp [hk, keysOf]
    · simp only [hk, if_false, keysOf, List.map_cons]
      exact List.Sublist.cons₂ _ (keysOf_removeRow_sublist k r)

theorem keysOf_removeRow_nodup (k : Key) (t : List (Key × List Data)) (h : (keysOf t).Nodup) :
    (keysOf (removeRow k t)).Nodup := List.Nodup.sublist (keysOf_removeRow_sublist k t) h

end YangVerif.Data

namespace YangVerif.Data

/-! ### replace = delete, then insert at the parent -/

mutual
  theorem conforms_emptyOf : ∀ s : Schema, conforms s (emptyOf s) = true
    | .leaf _ => by simp [emptyOf, conforms]
    | .cont _ => by simp [emptyOf, conforms]
    | .list _ _ => by simp [emptyOf, conforms, conformsRows]
  theorem conformsBody_emptyBody : ∀ ks : List Schema, conformsBody ks (emptyBody ks) = true
    | [] => by simp [emptyBody, conformsBody]
    | s :: r => by simp [emptyBody, conformsBody, conforms_emptyOf s, conformsBody_emptyBody r]
end

theorem uniqueKeys_emptyOf : ∀ s : Schema, uniqueKeys (emptyOf s) = true
  | .leaf _ => by simp [emptyOf, uniqueKeys]
  | .cont _ => by simp [emptyOf, uniqueKeys]
  | .list _ _ => by simp [emptyOf, uniqueKeys, keysOf, uniqueKeysRows]

theorem uniqueKeysBody_emptyBody : ∀ ks : List Schema, uniqueKeysBody (emptyBody ks) = true
  | [] => by simp [emptyBody, uniqueKeysBody]
  | s :: r => by simp [emptyBody, uniqueKeysBody, uniqueKeys_emptyOf s, uniqueKeysBody_emptyBody r]

theorem insertOK_emptyTarget (s : Schema) (d : Data) : insertOK s d (emptyOf s) = true := by
  cases s <;> cases d <;> simp [insertOK, emptyOf]

theorem insertOK_emptySource (s : Schema) (t : Data) : insertOK s (emptyOf s) t = true := by
  cases s <;> cases t <;> simp [insertOK, emptyOf]

/-- the three aligned lists of a replace: source mentions only child i, target has child i deleted -/
theorem replace_aligned : ∀ (ks : List Schema) (i : Nat) (s : Schema) (d : Data) (body : List Data),
    ks[i]? = some s → conforms s d = true → uniqueKeys d = true → conformsBody ks body = true →
    conformsBody ks ((emptyBody ks).set i d) = true ∧
    conformsBody ks (body.set i (emptyOf s)) = true ∧
    uniqueKeysBody ((emptyBody ks).set i d) = true ∧
    insertOKKids ks ((emptyBody ks).set i d) (body.set i (emptyOf s)) = true ∧
    mergeKids ks ((emptyBody ks).set i d) (body.set i (emptyOf s)) = body.set i (merge s d (emptyOf s))
  | [], i, s, d, body, hi, _, _, _ => by simp at hi
  | s0 :: ss, 0, s, d, [], _, _, _, hb => by simp [conformsBody] at hb
  | s0 :: ss, 0, s, d, t :: ts, hi, hd, hu, hb => by
    simp at hi; subst hi
    simp only [conformsBody, Bool.and_eq_true] at hb
    have hrest : mergeKids ss (emptyBody ss) ts = ts := by
      clear hd hu
      induction ss generalizing ts with
      | nil => cases ts <;> simp [mergeKids, emptyBody]
      | cons a as ih =>
        cases ts with
        | nil => simp [mergeKids, emptyBody]
        | cons x xs =>
          simp only [conformsBody, Bool.and_eq_true] at hb
          simp [mergeKids, emptyBody, merge_absent, ih xs ⟨hb.1, hb.2.2⟩]
    have hok : insertOKKids ss (emptyBody ss) ts = true := by
      clear hd hu hrest
      induction ss generalizing ts with
      | nil => cases ts <;> simp [insertOKKids, emptyBody]
      | cons a as ih =>
        cases ts with
        | nil => simp [insertOKKids, emptyBody]
        | cons x xs =>
          simp only [conformsBody, Bool.and_eq_true] at hb
          simp [insertOKKids, emptyBody, insertOK_emptySource, ih xs ⟨hb.1, hb.2.2⟩]
    simp [emptyBody, conformsBody, hd, conformsBody_emptyBody, conforms_emptyOf, hb.2, uniqueKeysBody, hu,
      uniqueKeysBody_emptyBody, insertOKKids, insertOK_emptyTarget, hok, mergeKids, hrest]
  | s0 :: ss, i + 1, s, d, [], _, _, _, hb => by simp [conformsBody] at hb
  | s0 :: ss, i + 1, s, d, t :: ts, hi, hd, hu, hb => by
    simp at hi
    simp only [conformsBody, Bool.and_eq_true] at hb
    obtain ⟨h1, h2, h3, h4, h5⟩ := replace_aligned ss i s d ts hi hd hu hb.2
    simp [emptyBody, conformsBody, conforms_emptyOf, hb.1, h1, h2, uniqueKeysBody, uniqueKeys_emptyOf, h3,
      insertOKKids, insertOK_emptySource, h4, mergeKids, merge_absent, h5]

/-- **replace**: exactly the supplied content (with its defaults) at that location, nothing of the
    old content, every sibling untouched -/
theorem replaceChild_exact (ks : List Schema) (i : Nat) (s : Schema) (d : Data) (body : List Data)
    (hi : ks[i]? = some s) (hd : conforms s d = true) (hu : uniqueKeys d = true)
    (hb : conformsBody ks body = true) :
    replaceChild ks i d body = .ok (body.set i (merge s d (emptyOf s))) := by
  obtain ⟨h1, h2, h3, h4, h5⟩ := replace_aligned ks i s d body hi hd hu hb
  unfold replaceChild onlyChild deleteChild
  simp only [hi]
  rw [editKids_insert ks _ _ h1 h2 h3, h4, h5]
  simp

end YangVerif.Data

namespace YangVerif.Data

/-! ### unique keys are preserved by the merge, at every depth -/

mutual
  theorem uniqueKeys_freshOf : ∀ s : Schema, uniqueKeys (freshOf s) = true
    | .leaf _ => by simp [freshOf, uniqueKeys]
    | .cont _ => by simp [freshOf, uniqueKeys]
    | .list _ _ => by simp [freshOf, uniqueKeys, keysOf, uniqueKeysRows]
  theorem uniqueKeysBody_freshBody : ∀ ks : List Schema, uniqueKeysBody (freshBody ks) = true
    | [] => by simp [freshBody, uniqueKeysBody]
    | s :: r => by simp [freshBody, uniqueKeysBody, uniqueKeys_freshOf s, uniqueKeysBody_freshBody r]
end

theorem uniqueKeysRows_findRow (k : Key) : ∀ (t : List (Key × List Data)) (b : List Data),
    uniqueKeysRows t = true → findRow k t = some b → uniqueKeysBody b = true
  | [], _, _, h => by simp [findRow] at h
  | (k', b') :: r, b, hu, h => by
    simp only [uniqueKeysRows, Bool.and_eq_true] at hu
    simp only [findRow] at h
    by_cases hk : k' = k
    · simp [hk] at h; subst h; exact hu.1
    · simp [hk] at h; exact uniqueKeysRows_findRow k r b hu.2 h

theorem uniqueKeysRows_setRow (k : Key) (b : List Data) (hb : uniqueKeysBody b = true) :
    ∀ (t : List (Key × List Data)), uniqueKeysRows t = true → uniqueKeysRows (setRow k b t) = true
  | [], _ => by simp [setRow, uniqueKeysRows]
  | (k', b') :: r, hu => by
    simp only [uniqueKeysRows, Bool.and_eq_true] at hu
    simp only [setRow]
    by_cases hk : k' = k
    · simp [hk, uniqueKeysRows, hb, hu.2]
    · simp [hk, uniqueKeysRows, hu.1, uniqueKeysRows_setRow k b hb r hu.2]

theorem uniqueKeysRows_append (k : Key) (b : List Data) (hb : uniqueKeysBody b = true) :
    ∀ (t : List (Key × List Data)), uniqueKeysRows t = true → uniqueKeysRows (t ++ [(k, b)]) = true
  | [], _ => by simp [uniqueKeysRows, hb]
  | (k', b') :: r, hu => by
    simp only [uniqueKeysRows, Bool.and_eq_true] at hu
    simp [uniqueKeysRows, hu.1, uniqueKeysRows_append k b hb r hu.2]

theorem uniqueKeysRows_mergeRows (ks : List Schema)
    (hk : ∀ ds ts, uniqueKeysBody ds = true → uniqueKeysBody ts = true → uniqueKeysBody (mergeKids ks ds ts) = true) :
    ∀ (rows t : List (Key × List Data)), uniqueKeysRows rows = true → uniqueKeysRows t = true →
      uniqueKeysRows (mergeRows ks rows t) = true
  | [], t, _, ht => by simpa [mergeRows] using ht
  | (k, sb) :: rest, t, hr, ht => by
    simp only [uniqueKeysRows, Bool.and_eq_true] at hr
    simp only [mergeRows]
    cases hf : findRow k t with
    | some tb =>
      have htb := uniqueKeysRows_findRow k t tb ht hf
      exact uniqueKeysRows_mergeRows ks hk rest _ hr.2 (uniqueKeysRows_setRow k _ (hk sb tb hr.1 htb) t ht)
    | none =>
      exact uniqueKeysRows_mergeRows ks hk rest _ hr.2
        (uniqueKeysRows_append k _ (hk sb _ hr.1 (uniqueKeysBody_freshBody ks)) t ht)

mutual
  theorem uniqueKeys_merge : ∀ (s : Schema) (d t : Data), uniqueKeys d = true → uniqueKeys t = true →
      uniqueKeys (merge s d t) = true
    | .leaf _, .leaf (some v), t, _, _ => by simp [merge, uniqueKeys]
    | .leaf _, .leaf none, t, _, ht => by simpa [merge] using ht
    | .leaf _, .cont _, t, _, ht => by simpa [merge] using ht
    | .leaf _, .list _, t, _, ht => by simpa [merge] using ht
    | .cont _, .leaf _, t, _, ht => by simpa [merge] using ht
    | .cont _, .list _, t, _, ht => by simpa [merge] using ht
    | .cont _, .cont none, t, _, ht => by simpa [merge] using ht
    | .cont ks, .cont (some sb), .cont (some tb), hd, ht => by
      simp only [uniqueKeys] at hd ht
      simp [merge, uniqueKeys, uniqueKeysBody_mergeKids ks sb tb hd ht]
    | .cont ks, .cont (some sb), .cont none, hd, _ => by
      simp only [uniqueKeys] at hd
      simp [merge, uniqueKeys, uniqueKeysBody_mergeKids ks sb _ hd (uniqueKeysBody_freshBody ks)]
    | .cont ks, .cont (some sb), .leaf _, hd, _ => by
      simp only [uniqueKeys] at hd
      simp [merge, uniqueKeys, uniqueKeysBody_mergeKids ks sb _ hd (uniqueKeysBody_freshBody ks)]
    | .cont ks, .cont (some sb), .list _, hd, _ => by
      simp only [uniqueKeys] at hd
      simp [merge, uniqueKeys, uniqueKeysBody_mergeKids ks sb _ hd (uniqueKeysBody_freshBody ks)]
    | .list _ _, .leaf _, t, _, ht => by simpa [merge] using ht
    | .list _ _, .cont _, t, _, ht => by simpa [merge] using ht
    | .list _ _, .list _, .leaf _, _, ht => by simpa [merge] using ht
    | .list _ _, .list _, .cont _, _, ht => by simpa [merge] using ht
    | .list _ ks, .list srows, .list trows, hd, ht => by
      simp only [uniqueKeys, Bool.and_eq_true, decide_eq_true_eq] at hd ht
      simp only [merge, uniqueKeys, Bool.and_eq_true, decide_eq_true_eq]
      exact ⟨keysOf_mergeRows_nodup ks srows trows ht.1,
        uniqueKeysRows_mergeRows ks (fun ds ts h1 h2 => uniqueKeysBody_mergeKids ks ds ts h1 h2) srows trows hd.2 ht.2⟩
  theorem uniqueKeysBody_mergeKids : ∀ (ks : List Schema) (ds ts : List Data), uniqueKeysBody ds = true →
      uniqueKeysBody ts = true → uniqueKeysBody (mergeKids ks ds ts) = true
    | [], _, ts, _, ht => by simpa [mergeKids] using ht
    | _ :: _, [], ts, _, ht => by simpa [mergeKids] using ht
    | _ :: _, _ :: _, [], _, ht => by simpa [mergeKids] using ht
    | s :: ss, d :: ds, t :: ts, hd, ht => by
      simp only [uniqueKeysBody, Bool.and_eq_true] at hd ht
      simp [mergeKids, uniqueKeysBody, uniqueKeys_merge s d t hd.1 ht.1, uniqueKeysBody_mergeKids ss ds ts hd.2 ht.2]
end

end YangVerif.Data

namespace YangVerif.Data

/-! ### every operation preserves "conforming, keys unique" -/

theorem conformsBody_set : ∀ (ks : List Schema) (body : List Data) (i : Nat) (s : Schema) (d : Data),
    ks[i]? = some s → conforms s d = true → conformsBody ks body = true → conformsBody ks (body.set i d) = true
  | [], _, i, _, _, hi, _, _ => by simp at hi
  | _ :: _, [], _, _, _, _, _, hb => by simp [conformsBody] at hb
  | s0 :: ss, t :: ts, 0, s, d, hi, hd, hb => by
    simp at hi; subst hi
    simp only [conformsBody, Bool.and_eq_true] at hb
    simp [conformsBody, hd, hb.2]
  | s0 :: ss, t :: ts, i + 1, s, d, hi, hd, hb => by
    simp at hi
    simp only [conformsBody, Bool.and_eq_true] at hb
    simp [conformsBody, hb.1, conformsBody_set ss ts i s d hi hd hb.2]

theorem uniqueKeysBody_set : ∀ (body : List Data) (i : Nat) (d : Data),
    uniqueKeys d = true → uniqueKeysBody body = true → uniqueKeysBody (body.set i d) = true
  | [], _, _, _, hb => by simpa using hb
  | t :: ts, 0, d, hd, hb => by
    simp only [uniqueKeysBody, Bool.and_eq_true] at hb
    simp [uniqueKeysBody, hd, hb.2]
  | t :: ts, i + 1, d, hd, hb => by
    simp only [uniqueKeysBody, Bool.and_eq_true] at hb
    simp [uniqueKeysBody, hb.1, uniqueKeysBody_set ts i d hd hb.2]

theorem conformsBody_get : ∀ (ks : List Schema) (body : List Data) (i : Nat) (s : Schema) (d : Data),
    ks[i]? = some s → body[i]? = some d → conformsBody ks body = true → conforms s d = true
  | [], _, i, _, _, hi, _, _ => by simp at hi
  | _ :: _, [], _, _, _, _, hd, _ => by simp at hd
  | s0 :: ss, t :: ts, 0, s, d, hi, hd, hb => by
    simp at hi hd; subst hi; subst hd
    simp only [conformsBody, Bool.and_eq_true] at hb; exact hb.1
  | s0 :: ss, t :: ts, i + 1, s, d, hi, hd, hb => by
    simp at hi hd
    simp only [conformsBody, Bool.and_eq_true] at hb
    exact conformsBody_get ss ts i s d hi hd hb.2

theorem uniqueKeysBody_get : ∀ (body : List Data) (i : Nat) (d : Data),
    body[i]? = some d → uniqueKeysBody body = true → uniqueKeys d = true
  | [], _, _, hd, _ => by simp at hd
  | t :: ts, 0, d, hd, hb => by
    simp at hd; subst hd
    simp only [uniqueKeysBody, Bool.and_eq_true] at hb; exact hb.1
  | t :: ts, i + 1, d, hd, hb => by
    simp at hd
    simp only [uniqueKeysBody, Bool.and_eq_true] at hb
    exact uniqueKeysBody_get ts i d hd hb.2

theorem conformsRows_removeRow (ks : List Schema) (k : Key) : ∀ (t : List (Key × List Data)),
    conformsRows ks t = true → conformsRows ks (removeRow k t) = true
  | [], _ => by simp [removeRow, conformsRows]
  | (k', b) :: r, h => by
    simp only [conformsRows, Bool.and_eq_true] at h
    simp only [removeRow]
    by_cases hk : k' = k
    · simp [hk, h.2]
    · simp [hk, conformsRows, h.1, conformsRows_removeRow ks k r h.2]

theorem uniqueKeysRows_removeRow (k : Key) : ∀ (t : List (Key × List Data)),
    uniqueKeysRows t = true → uniqueKeysRows (removeRow k t) = true
  | [], _ => by simp [removeRow, uniqueKeysRows]
  | (k', b) :: r, h => by
    simp only [uniqueKeysRows, Bool.and_eq_true] at h
    simp only [removeRow]
    by_cases hk : k' = k
    · simp [hk, h.2]
    · simp [hk, uniqueKeysRows, h.1, uniqueKeysRows_removeRow k r h.2]

/-- the invariant of C18 -/
def Inv (ks : List Schema) (body : List Data) : Prop :=
  conformsBody ks body = true ∧ uniqueKeysBody body = true

theorem step_preserves (ks : List Schema) (body : List Data) (op : Op) (hop : op.wf ks = true)
    (h : Inv ks body) : Inv ks (step ks body op) := by
  obtain ⟨hc, hu⟩ := h
  cases op with
  | upsert doc =>
    simp only [Op.wf, Bool.and_eq_true] at hop
    simp only [step, editKids_upsert ks doc body hop.1 hc, okOr]
    exact ⟨conformsBody_mergeKids ks doc body hop.1 hc, uniqueKeysBody_mergeKids ks doc body hop.2 hu⟩
  | insert doc =>
    simp only [Op.wf, Bool.and_eq_true] at hop
    simp only [step, editKids_insert ks doc body hop.1 hc hop.2]
    by_cases ho : insertOKKids ks doc body = true
    · simp only [ho, if_true, okOr]
      exact ⟨conformsBody_mergeKids ks doc body hop.1 hc, uniqueKeysBody_mergeKids ks doc body hop.2 hu⟩
    · simp only [ho, Bool.false_eq_true, if_false, okOr]; exact ⟨hc, hu⟩
  | update doc =>
    simp only [Op.wf, Bool.and_eq_true] at hop
    simp only [step, editKids_update ks doc body hop.1 hc]
    by_cases ho : updateOKKids ks doc body = true
    · simp only [ho, if_true, okOr]
      exact ⟨conformsBody_mergeKids ks doc body hop.1 hc, uniqueKeysBody_mergeKids ks doc body hop.2 hu⟩
    · simp only [ho, Bool.false_eq_true, if_false, okOr]; exact ⟨hc, hu⟩
  | delChild i =>
    simp only [step, deleteChild]
    cases hi : ks[i]? with
    | none => exact ⟨hc, hu⟩
    | some s =>
      exact ⟨conformsBody_set ks body i s _ hi (conforms_emptyOf s) hc,
        uniqueKeysBody_set body i _ (uniqueKeys_emptyOf s) hu⟩
  | delRow i k =>
    simp only [step, deleteRow]
    cases hd : body[i]? with
    | none => exact ⟨hc, hu⟩
    | some d =>
      cases d with
      | leaf _ => exact ⟨hc, hu⟩
      | cont _ => exact ⟨hc, hu⟩
      | list rows =>
        have hud := uniqueKeysBody_get body i _ hd hu
        simp only [uniqueKeys, Bool.and_eq_true, decide_eq_true_eq] at hud
        have hu' : uniqueKeys (.list (removeRow k rows)) = true := by
          simp only [uniqueKeys, Bool.and_eq_true, decide_eq_true_eq]
          exact ⟨keysOf_removeRow_nodup k rows hud.1, uniqueKeysRows_removeRow k rows hud.2⟩
        refine ⟨?_, uniqueKeysBody_set body i _ hu' hu⟩
        cases hi : ks[i]? with
        | none =>
          -- cannot happen for a conforming body, but the statement does not need it
          have : body.length ≤ ks.length ∨ True := Or.inr trivial
          clear this
          -- body[i]? = some … and ks[i]? = none contradict conformance (equal lengths)
          exfalso
          have hlen : ∀ (ks : List Schema) (body : List Data), conformsBody ks body = true → ks.length = body.length := by
            intro ks
            induction ks with
            | nil => intro body hb; cases body <;> simp [conformsBody] at hb ⊢
            | cons a as ih =>
              intro body hb
              cases body with
              | nil => simp [conformsBody] at hb
              | cons x xs =>
                simp only [conformsBody, Bool.and_eq_true] at hb
                simp [ih xs hb.2]
          have := hlen ks body hc
          have h1 : ks.length ≤ i := by simpa using hi
          have h2 : i < body.length := by
            apply Classical.byContradiction; intro hn
            have : body[i]? = none := by simp; omega
            rw [this] at hd; cases hd
          omega
        | some s =>
          have hcd := conformsBody_get ks body i s _ hi hd hc
          cases s with
          | leaf _ => simp [conforms] at hcd
          | cont _ => simp [conforms] at hcd
          | list n ks' =>
            simp only [conforms] at hcd
            exact conformsBody_set ks body i (.list n ks') _ hi
              (by simpa [conforms] using conformsRows_removeRow ks' k rows hcd) hc
  | replace i d =>
    simp only [Op.wf] at hop
    cases hi : ks[i]? with
    | none => simp [hi] at hop
    | some s =>
      simp only [hi, Bool.and_eq_true] at hop
      simp only [step, replaceChild_exact ks i s d body hi hop.1 hop.2 hc, okOr]
      have hm : conforms s (merge s d (emptyOf s)) = true := conforms_merge s d _ hop.1 (conforms_emptyOf s)
      have hum : uniqueKeys (merge s d (emptyOf s)) = true := uniqueKeys_merge s d _ hop.2 (uniqueKeys_emptyOf s)
      exact ⟨conformsBody_set ks body i s _ hi hm hc, uniqueKeysBody_set body i _ hum hu⟩
  | replaceRow i k b =>
    simp only [Op.wf] at hop
    simp only [step, replaceRow]
    cases hi : ks[i]? with
    | none => simp [hi] at hop
    | some s =>
      cases s with
      | leaf _ => simp [hi] at hop
      | cont _ => simp [hi] at hop
      | list n lks =>
        simp only [hi, Bool.and_eq_true] at hop
        cases hd : body[i]? with
        | none => exact ⟨hc, hu⟩
        | some d =>
          cases d with
          | leaf _ => exact ⟨hc, hu⟩
          | cont _ => exact ⟨hc, hu⟩
          | list rows =>
            have hcd := conformsBody_get ks body i _ _ hi hd hc
            simp only [conforms] at hcd
            have hud := uniqueKeysBody_get body i _ hd hu
            simp only [uniqueKeys, Bool.and_eq_true, decide_eq_true_eq] at hud
            have hc0 := conformsRows_removeRow lks k rows hcd
            have hn0 := keysOf_removeRow_nodup k rows hud.1
            have hu0 := uniqueKeysRows_removeRow k rows hud.2
            have hk : k ∉ keysOf (removeRow k rows) :=
              not_mem_of_findRow_none k _ (findRow_removeRow_self k rows hud.1)
            have hins := editRows_insert lks (fun ds h1 => editKids_upsert_new lks ds h1) [(k, b)] (removeRow k rows)
              (by simp [conformsRows, hop.1]) (by intro k' hk'; simp [keysOf] at hk'; subst hk'; exact hk)
              (by simp [keysOf])
            simp only [hins]
            have hcm : conformsRows lks (mergeRows lks [(k, b)] (removeRow k rows)) = true :=
              conformsRows_mergeRows lks (fun ds ts h1 h2 => conformsBody_mergeKids lks ds ts h1 h2) _ _
                (by simp [conformsRows, hop.1]) hc0
            have hnm := keysOf_mergeRows_nodup lks [(k, b)] (removeRow k rows) hn0
            have hum : uniqueKeysRows (mergeRows lks [(k, b)] (removeRow k rows)) = true :=
              uniqueKeysRows_mergeRows lks (fun ds ts h1 h2 => uniqueKeysBody_mergeKids lks ds ts h1 h2) _ _
                (by simp [uniqueKeysRows, hop.2]) hu0
            have hu' : uniqueKeys (.list (mergeRows lks [(k, b)] (removeRow k rows))) = true := by
              simp only [uniqueKeys, Bool.and_eq_true, decide_eq_true_eq]; exact ⟨hnm, hum⟩
            exact ⟨conformsBody_set ks body i (.list n lks) _ hi (by simpa [conforms] using hcm) hc,
              uniqueKeysBody_set body i _ hu' hu⟩

/-- lifted to every history -/
theorem history_preserves (ks : List Schema) : ∀ (ops : List Op) (body : List Data),
    (∀ op ∈ ops, op.wf ks = true) → Inv ks body → Inv ks (ops.foldl (step ks) body)
  | [], body, _, h => by simpa using h
  | op :: rest, body, hops, h => by
    simp only [List.foldl_cons]
    exact history_preserves ks rest _ (fun o ho => hops o (List.mem_cons_of_mem _ ho))
      (step_preserves ks body op (hops op (List.mem_cons_self ..)) h)

end YangVerif.Data

namespace YangVerif.Data

/-! ### export: a read into a fresh target reports exactly the data (plus defaults of created nodes) -/

/-- rows with pairwise different keys merged into rows they are disjoint from are appended in order -/
theorem mergeRows_append_fresh (ks : List Schema)
    (hb : ∀ b, conformsBody ks b = true → uniqueKeysBody b = true →
      mergeKids ks b (freshBody ks) = withDefaultsBody true ks b) :
    ∀ (rows t : List (Key × List Data)), conformsRows ks rows = true → uniqueKeysRows rows = true →
      (∀ k ∈ keysOf rows, k ∉ keysOf t) → (keysOf rows).Nodup →
      mergeRows ks rows t = t ++ withDefaultsRows ks rows
  | [], t, _, _, _, _ => by simp [mergeRows, withDefaultsRows]
  | (k, b) :: rest, t, hc, hu, hdis, hnd => by
    simp only [conformsRows, Bool.and_eq_true] at hc
    simp only [uniqueKeysRows, Bool.and_eq_true] at hu
    simp only [keysOf, List.map_cons, List.nodup_cons] at hnd
    have hk : k ∉ keysOf t := hdis k (by simp [keysOf])
    simp only [mergeRows, findRow_none_of_not_mem k t hk, withDefaultsRows]
    rw [mergeRows_append_fresh ks hb rest _ hc.2 hu.2 _ hnd.2, hb b hc.1 hu.1]
    · simp [List.append_assoc]
    · intro k' hk'
      simp only [keysOf, List.map_append, List.map_cons, List.map_nil, List.mem_append, List.mem_singleton, not_or]
      refine ⟨by simpa [keysOf] using hdis k' (by simp [keysOf]; right; simpa [keysOf] using hk'), ?_⟩
      intro e; subst e; exact hnd.1 (by simpa [keysOf] using hk')

mutual
  theorem merge_into_empty : ∀ (s : Schema) (d : Data), conforms s d = true → uniqueKeys d = true →
      merge s d (emptyOf s) = withDefaults false s d ∧ merge s d (freshOf s) = withDefaults true s d
    | .leaf dflt, .leaf (some v), _, _ => by simp [merge, withDefaults, emptyOf, freshOf]
    | .leaf dflt, .leaf none, _, _ => by simp [merge, withDefaults, emptyOf, freshOf]
    | .leaf _, .cont _, hd, _ => by simp [conforms] at hd
    | .leaf _, .list _, hd, _ => by simp [conforms] at hd
    | .cont _, .leaf _, hd, _ => by simp [conforms] at hd
    | .cont _, .list _, hd, _ => by simp [conforms] at hd
    | .cont _, .cont none, _, _ => by simp [merge, withDefaults, emptyOf, freshOf]
    | .cont ks, .cont (some b), hd, hu => by
      simp only [conforms] at hd
      simp only [uniqueKeys] at hu
      simp [merge, withDefaults, emptyOf, freshOf, mergeKids_into_fresh ks b hd hu]
    | .list _ _, .leaf _, hd, _ => by simp [conforms] at hd
    | .list _ _, .cont _, hd, _ => by simp [conforms] at hd
    | .list _ ks, .list rows, hd, hu => by
      simp only [conforms] at hd
      simp only [uniqueKeys, Bool.and_eq_true, decide_eq_true_eq] at hu
      have h := mergeRows_append_fresh ks (fun b h1 h2 => mergeKids_into_fresh ks b h1 h2) rows [] hd hu.2
        (by intro k _; simp [keysOf]) hu.1
      simp [merge, withDefaults, emptyOf, freshOf, h]
  theorem mergeKids_into_fresh : ∀ (ks : List Schema) (b : List Data), conformsBody ks b = true → uniqueKeysBody b = true →
      mergeKids ks b (freshBody ks) = withDefaultsBody true ks b
    | [], [], _, _ => by simp [mergeKids, withDefaultsBody, freshBody]
    | [], _ :: _, hd, _ => by simp [conformsBody] at hd
    | _ :: _, [], hd, _ => by simp [conformsBody] at hd
    | s :: ss, d :: ds, hd, hu => by
      simp only [conformsBody, Bool.and_eq_true] at hd
      simp only [uniqueKeysBody, Bool.and_eq_true] at hu
      simp [mergeKids, withDefaultsBody, freshBody, (merge_into_empty s d hd.1 hu.1).2, mergeKids_into_fresh ss ds hd.2 hu.2]
end

theorem mergeKids_into_empty : ∀ (ks : List Schema) (b : List Data), conformsBody ks b = true → uniqueKeysBody b = true →
    mergeKids ks b (emptyBody ks) = withDefaultsBody false ks b
  | [], [], _, _ => by simp [mergeKids, withDefaultsBody, emptyBody]
  | [], _ :: _, hd, _ => by simp [conformsBody] at hd
  | _ :: _, [], hd, _ => by simp [conformsBody] at hd
  | s :: ss, d :: ds, hd, hu => by
    simp only [conformsBody, Bool.and_eq_true] at hd
    simp only [uniqueKeysBody, Bool.and_eq_true] at hu
    simp [mergeKids, withDefaultsBody, emptyBody, (merge_into_empty s d hd.1 hu.1).1, mergeKids_into_empty ss ds hd.2 hu.2]

end YangVerif.Data
