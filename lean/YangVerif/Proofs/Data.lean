/-
  Helper lemmas for the shared data/editor model (C03, C18, …).
-/
import YangVerif.Model.Data
set_option linter.unusedSimpArgs false
set_option linter.unusedVariables false
namespace YangVerif.Data

/-! ### conformance of created nodes and of rows -/

mutual
  theorem conforms_freshOf : ∀ s : Schema, conforms s (freshOf s) = true
    | .leaf _ => by simp [freshOf, conforms]
    | .cont _ => by simp [freshOf, conforms]
    | .list _ _ => by simp [freshOf, conforms, conformsRows]
  theorem conformsBody_freshBody : ∀ ks : List Schema, conformsBody ks (freshBody ks) = true
    | [] => by simp [freshBody, conformsBody]
    | s :: r => by simp [freshBody, conformsBody, conforms_freshOf s, conformsBody_freshBody r]
end

theorem conformsRows_findRow (ks : List Schema) (k : Key) :
    ∀ (t : List (Key × List Data)) (b : List Data), conformsRows ks t = true → findRow k t = some b →
      conformsBody ks b = true
  | [], _, _, h => by simp [findRow] at h
  | (k', b') :: r, b, hc, h => by
    simp only [conformsRows, Bool.and_eq_true] at hc
    simp only [findRow] at h
    by_cases hk : k' = k
    · simp [hk] at h; subst h; exact hc.1
    · simp [hk] at h; exact conformsRows_findRow ks k r b hc.2 h

theorem conformsRows_setRow (ks : List Schema) (k : Key) (b : List Data) (hb : conformsBody ks b = true) :
    ∀ (t : List (Key × List Data)), conformsRows ks t = true → conformsRows ks (setRow k b t) = true
  | [], _ => by simp [setRow, conformsRows]
  | (k', b') :: r, hc => by
    simp only [conformsRows, Bool.and_eq_true] at hc
    simp only [setRow]
    by_cases hk : k' = k
    · simp [hk, conformsRows, hb, hc.2]
    · simp [hk, conformsRows, hc.1, conformsRows_setRow ks k b hb r hc.2]

theorem conformsRows_append (ks : List Schema) (k : Key) (b : List Data) (hb : conformsBody ks b = true) :
    ∀ (t : List (Key × List Data)), conformsRows ks t = true → conformsRows ks (t ++ [(k, b)]) = true
  | [], _ => by simp [conformsRows, hb]
  | (k', b') :: r, hc => by
    simp only [conformsRows, Bool.and_eq_true] at hc
    simp [conformsRows, hc.1, conformsRows_append ks k b hb r hc.2]

/-- rows part of "merge preserves conformance", given the body part for `ks` -/
theorem conformsRows_mergeRows (ks : List Schema)
    (hk : ∀ ds ts, conformsBody ks ds = true → conformsBody ks ts = true → conformsBody ks (mergeKids ks ds ts) = true) :
    ∀ (rows t : List (Key × List Data)), conformsRows ks rows = true → conformsRows ks t = true →
      conformsRows ks (mergeRows ks rows t) = true
  | [], t, _, ht => by simpa [mergeRows] using ht
  | (k, sb) :: rest, t, hr, ht => by
    simp only [conformsRows, Bool.and_eq_true] at hr
    simp only [mergeRows]
    cases hf : findRow k t with
    | some tb =>
      have htb := conformsRows_findRow ks k t tb ht hf
      exact conformsRows_mergeRows ks hk rest _ hr.2
        (conformsRows_setRow ks k _ (hk sb tb hr.1 htb) t ht)
    | none =>
      exact conformsRows_mergeRows ks hk rest _ hr.2
        (conformsRows_append ks k _ (hk sb _ hr.1 (conformsBody_freshBody ks)) t ht)

mutual
  theorem conforms_merge : ∀ (s : Schema) (d t : Data), conforms s d = true → conforms s t = true →
      conforms s (merge s d t) = true
    | .leaf _, .leaf (some v), t, _, _ => by simp [merge, conforms]
    | .leaf _, .leaf none, t, _, ht => by simpa [merge] using ht
    | .leaf _, .cont _, _, hd, _ => by simp [conforms] at hd
    | .leaf _, .list _, _, hd, _ => by simp [conforms] at hd
    | .cont _, .leaf _, _, hd, _ => by simp [conforms] at hd
    | .cont _, .list _, _, hd, _ => by simp [conforms] at hd
    | .cont _, .cont none, t, _, ht => by simpa [merge] using ht
    | .cont ks, .cont (some sb), .cont (some tb), hd, ht => by
      simp only [conforms] at hd ht
      simp [merge, conforms, conformsBody_mergeKids ks sb tb hd ht]
    | .cont ks, .cont (some sb), .cont none, hd, _ => by
      simp only [conforms] at hd
      simp [merge, conforms, conformsBody_mergeKids ks sb _ hd (conformsBody_freshBody ks)]
    | .cont _, .cont (some _), .leaf _, _, ht => by simp [conforms] at ht
    | .cont _, .cont (some _), .list _, _, ht => by simp [conforms] at ht
    | .list _ _, .leaf _, _, hd, _ => by simp [conforms] at hd
    | .list _ _, .cont _, _, hd, _ => by simp [conforms] at hd
    | .list _ _, .list _, .leaf _, _, ht => by simp [conforms] at ht
    | .list _ _, .list _, .cont _, _, ht => by simp [conforms] at ht
    | .list _ ks, .list srows, .list trows, hd, ht => by
      simp only [conforms] at hd ht
      simp only [merge, conforms]
      exact conformsRows_mergeRows ks (fun ds ts h1 h2 => conformsBody_mergeKids ks ds ts h1 h2) srows trows hd ht
  theorem conformsBody_mergeKids : ∀ (ks : List Schema) (ds ts : List Data), conformsBody ks ds = true →
      conformsBody ks ts = true → conformsBody ks (mergeKids ks ds ts) = true
    | [], [], [], _, _ => by simp [mergeKids, conformsBody]
    | [], [], _ :: _, _, ht => by simp [conformsBody] at ht
    | [], _ :: _, _, hd, _ => by simp [conformsBody] at hd
    | _ :: _, [], _, hd, _ => by simp [conformsBody] at hd
    | _ :: _, _ :: _, [], _, ht => by simp [conformsBody] at ht
    | s :: ss, d :: ds, t :: ts, hd, ht => by
      simp only [conformsBody, Bool.and_eq_true] at hd ht
      simp [mergeKids, conformsBody, conforms_merge s d t hd.1 ht.1, conformsBody_mergeKids ss ds ts hd.2 ht.2]
end

/-! ### the editor in upsert mode computes the merge -/

/-- rows loop, given the two body statements for `ks` -/
theorem editRows_upsert (ks : List Schema)
    (h2 : ∀ ds ts, conformsBody ks ds = true → conformsBody ks ts = true →
      editKids .upsert false ks ds ts = .ok (mergeKids ks ds ts))
    (h2' : ∀ ds, conformsBody ks ds = true →
      editKids .upsert true ks ds (emptyBody ks) = .ok (mergeKids ks ds (freshBody ks))) :
    ∀ (rows t : List (Key × List Data)), conformsRows ks rows = true → conformsRows ks t = true →
      editRows .upsert ks rows t = .ok (mergeRows ks rows t)
  | [], t, _, _ => by simp [editRows, mergeRows]
  | (k, sb) :: rest, t, hr, ht => by
    simp only [conformsRows, Bool.and_eq_true] at hr
    simp only [editRows, mergeRows]
    cases hf : findRow k t with
    | some tb =>
      have htb := conformsRows_findRow ks k t tb ht hf
      simp only [h2 sb tb hr.1 htb]
      exact editRows_upsert ks h2 h2' rest _ hr.2
        (conformsRows_setRow ks k _ (conformsBody_mergeKids ks sb tb hr.1 htb) t ht)
    | none =>
      simp only [h2' sb hr.1]
      exact editRows_upsert ks h2 h2' rest _ hr.2
        (conformsRows_append ks k _ (conformsBody_mergeKids ks sb _ hr.1 (conformsBody_freshBody ks)) t ht)

mutual
  theorem edit_upsert : ∀ (s : Schema) (d t : Data), conforms s d = true → conforms s t = true →
      edit .upsert false s d t = .ok (merge s d t)
    | .leaf _, .leaf (some v), t, _, _ => by simp [edit, merge]
    | .leaf _, .leaf none, t, _, _ => by simp [edit, merge]
    | .leaf _, .cont _, _, hd, _ => by simp [conforms] at hd
    | .leaf _, .list _, _, hd, _ => by simp [conforms] at hd
    | .cont _, .leaf _, _, hd, _ => by simp [conforms] at hd
    | .cont _, .list _, _, hd, _ => by simp [conforms] at hd
    | .cont _, .cont none, .leaf _, _, ht => by simp [conforms] at ht
    | .cont _, .cont none, .list _, _, ht => by simp [conforms] at ht
    | .cont _, .cont none, .cont _, _, _ => by simp [edit, merge]
    | .cont ks, .cont (some sb), .cont (some tb), hd, ht => by
      simp only [conforms] at hd ht
      simp [edit, merge, editKids_upsert ks sb tb hd ht, Except.map]
    | .cont ks, .cont (some sb), .cont none, hd, _ => by
      simp only [conforms] at hd
      simp [edit, merge, editKids_upsert_new ks sb hd, Except.map]
    | .cont _, .cont (some _), .leaf _, _, ht => by simp [conforms] at ht
    | .cont _, .cont (some _), .list _, _, ht => by simp [conforms] at ht
    | .list _ _, .leaf _, _, hd, _ => by simp [conforms] at hd
    | .list _ _, .cont _, _, hd, _ => by simp [conforms] at hd
    | .list _ _, .list _, .leaf _, _, ht => by simp [conforms] at ht
    | .list _ _, .list _, .cont _, _, ht => by simp [conforms] at ht
    | .list _ ks, .list [], .list trows, _, _ => by simp [edit, merge, mergeRows]
    | .list _ ks, .list (r :: rs), .list trows, hd, ht => by
      simp only [conforms] at hd ht
      have := editRows_upsert ks (fun ds ts h1 h2 => editKids_upsert ks ds ts h1 h2)
        (fun ds h1 => editKids_upsert_new ks ds h1) (r :: rs) trows hd ht
      simp [edit, merge, this, Except.map]
  /-- into a node that was just created: the unset leaves end up with their defaults -/
  theorem edit_upsert_new : ∀ (s : Schema) (d : Data), conforms s d = true →
      edit .upsert true s d (emptyOf s) = .ok (merge s d (freshOf s))
    | .leaf _, .leaf (some v), _ => by simp [edit, merge, emptyOf]
    | .leaf none, .leaf none, _ => by simp [edit, merge, emptyOf, freshOf]
    | .leaf (some x), .leaf none, _ => by simp [edit, merge, emptyOf, freshOf]
    | .leaf _, .cont _, hd => by simp [conforms] at hd
    | .leaf _, .list _, hd => by simp [conforms] at hd
    | .cont _, .leaf _, hd => by simp [conforms] at hd
    | .cont _, .list _, hd => by simp [conforms] at hd
    | .cont _, .cont none, _ => by simp [edit, merge, emptyOf, freshOf]
    | .cont ks, .cont (some sb), hd => by
      simp only [conforms] at hd
      simp [edit, merge, emptyOf, freshOf, editKids_upsert_new ks sb hd, Except.map]
    | .list _ _, .leaf _, hd => by simp [conforms] at hd
    | .list _ _, .cont _, hd => by simp [conforms] at hd
    | .list _ ks, .list [], _ => by simp [edit, merge, emptyOf, freshOf, mergeRows]
    | .list _ ks, .list (r :: rs), hd => by
      simp only [conforms] at hd
      have := editRows_upsert ks (fun ds ts h1 h2 => editKids_upsert ks ds ts h1 h2)
        (fun ds h1 => editKids_upsert_new ks ds h1) (r :: rs) [] hd (by simp [conformsRows])
      simp [edit, merge, emptyOf, freshOf, this, Except.map]
  theorem editKids_upsert : ∀ (ks : List Schema) (ds ts : List Data), conformsBody ks ds = true →
      conformsBody ks ts = true → editKids .upsert false ks ds ts = .ok (mergeKids ks ds ts)
    | [], [], [], _, _ => by simp [editKids, mergeKids]
    | [], [], _ :: _, _, ht => by simp [conformsBody] at ht
    | [], _ :: _, _, hd, _ => by simp [conformsBody] at hd
    | _ :: _, [], _, hd, _ => by simp [conformsBody] at hd
    | _ :: _, _ :: _, [], _, ht => by simp [conformsBody] at ht
    | s :: ss, d :: ds, t :: ts, hd, ht => by
      simp only [conformsBody, Bool.and_eq_true] at hd ht
      simp [editKids, mergeKids, edit_upsert s d t hd.1 ht.1, editKids_upsert ss ds ts hd.2 ht.2]
  theorem editKids_upsert_new : ∀ (ks : List Schema) (ds : List Data), conformsBody ks ds = true →
      editKids .upsert true ks ds (emptyBody ks) = .ok (mergeKids ks ds (freshBody ks))
    | [], [], _ => by simp [editKids, mergeKids, emptyBody, freshBody]
    | [], _ :: _, hd => by simp [conformsBody] at hd
    | _ :: _, [], hd => by simp [conformsBody] at hd
    | s :: ss, d :: ds, hd => by
      simp only [conformsBody, Bool.and_eq_true] at hd
      simp [editKids, mergeKids, emptyBody, freshBody, edit_upsert_new s d hd.1, editKids_upsert_new ss ds hd.2]
end

end YangVerif.Data

namespace YangVerif.Data

/-! ### keys of rows -/

theorem findRow_none_of_not_mem (k : Key) : ∀ (t : List (Key × List Data)), k ∉ keysOf t → findRow k t = none
  | [], _ => rfl
  | (k', b) :: r, h => by
    simp only [keysOf, List.map_cons, List.mem_cons, not_or] at h
    have hne : k' ≠ k := fun e => h.1 e.symm
    simp [findRow, hne, findRow_none_of_not_mem k r (by simpa [keysOf] using h.2)]

theorem not_mem_of_findRow_none (k : Key) : ∀ (t : List (Key × List Data)), findRow k t = none → k ∉ keysOf t
  | [], _ => by simp [keysOf]
  | (k', b) :: r, h => by
    simp only [findRow] at h
    by_cases hk : k' = k
    · simp [hk] at h
    · simp only [hk, if_false] at h
      have := not_mem_of_findRow_none k r h
      simp only [keysOf, List.map_cons, List.mem_cons, not_or]
      exact ⟨fun e => hk e.symm, by simpa [keysOf] using this⟩

theorem keysOf_setRow (k : Key) (b : List Data) : ∀ (t : List (Key × List Data)), keysOf (setRow k b t) = keysOf t
  | [] => rfl
  | (k', b') :: r => by
    simp only [setRow]
    by_cases hk : k' = k
    · simp [hk, keysOf]
    · simp only [hk, if_false, keysOf, List.map_cons, List.cons.injEq, true_and]
      exact keysOf_setRow k b r

theorem findRow_isSome_iff (k : Key) (t : List (Key × List Data)) : (findRow k t).isSome = true ↔ k ∈ keysOf t := by
  constructor
  · intro h
    apply Classical.byContradiction
    intro hn
    rw [findRow_none_of_not_mem k t hn] at h; cases h
  · intro h
    cases hf : findRow k t with
    | some _ => rfl
    | none => exact absurd h (not_mem_of_findRow_none k t hf)

/-! ### insert -/

/-- rows loop in insert mode: all keys new and pairwise different -/
theorem editRows_insert (ks : List Schema)
    (h2' : ∀ ds, conformsBody ks ds = true →
      editKids .upsert true ks ds (emptyBody ks) = .ok (mergeKids ks ds (freshBody ks))) :
    ∀ (rows t : List (Key × List Data)), conformsRows ks rows = true →
      (∀ k ∈ keysOf rows, k ∉ keysOf t) → (keysOf rows).Nodup →
      editRows .insert ks rows t = .ok (mergeRows ks rows t)
  | [], t, _, _, _ => by simp [editRows, mergeRows]
  | (k, sb) :: rest, t, hr, hdis, hnd => by
    simp only [conformsRows, Bool.and_eq_true] at hr
    simp only [keysOf, List.map_cons, List.nodup_cons] at hnd
    have hk : k ∉ keysOf t := hdis k (by simp [keysOf])
    have hf := findRow_none_of_not_mem k t hk
    simp only [editRows, mergeRows, hf, h2' sb hr.1]
    apply editRows_insert ks h2' rest _ hr.2 _ hnd.2
    intro k' hk'
    simp only [keysOf, List.map_append, List.map_cons, List.map_nil, List.mem_append, List.mem_singleton, not_or]
    refine ⟨by simpa [keysOf] using hdis k' (by simp [keysOf]; right; simpa [keysOf] using hk'), ?_⟩
    intro e; subst e; exact hnd.1 (by simpa [keysOf] using hk')

mutual
  /-- insert into a node that was just created -/
  theorem edit_insert_new : ∀ (s : Schema) (d : Data), conforms s d = true → uniqueKeys d = true →
      edit .insert true s d (emptyOf s) = .ok (merge s d (freshOf s))
    | .leaf _, .leaf (some v), _, _ => by simp [edit, merge, emptyOf]
    | .leaf none, .leaf none, _, _ => by simp [edit, merge, emptyOf, freshOf]
    | .leaf (some x), .leaf none, _, _ => by simp [edit, merge, emptyOf, freshOf]
    | .leaf _, .cont _, hd, _ => by simp [conforms] at hd
    | .leaf _, .list _, hd, _ => by simp [conforms] at hd
    | .cont _, .leaf _, hd, _ => by simp [conforms] at hd
    | .cont _, .list _, hd, _ => by simp [conforms] at hd
    | .cont _, .cont none, _, _ => by simp [edit, merge, emptyOf, freshOf]
    | .cont ks, .cont (some sb), hd, hu => by
      simp only [conforms] at hd
      simp only [uniqueKeys] at hu
      simp [edit, merge, emptyOf, freshOf, editKids_insert_new ks sb hd hu, Except.map]
    | .list _ _, .leaf _, hd, _ => by simp [conforms] at hd
    | .list _ _, .cont _, hd, _ => by simp [conforms] at hd
    | .list _ ks, .list [], _, _ => by simp [edit, merge, emptyOf, freshOf, mergeRows]
    | .list _ ks, .list (r :: rs), hd, hu => by
      simp only [conforms] at hd
      simp only [uniqueKeys, Bool.and_eq_true, decide_eq_true_eq] at hu
      have := editRows_insert ks (fun ds h1 => editKids_upsert_new ks ds h1) (r :: rs) [] hd
        (by intro k _; simp [keysOf]) hu.1
      simp [edit, merge, emptyOf, freshOf, this, Except.map]
  theorem editKids_insert_new : ∀ (ks : List Schema) (ds : List Data), conformsBody ks ds = true →
      uniqueKeysBody ds = true →
      editKids .insert true ks ds (emptyBody ks) = .ok (mergeKids ks ds (freshBody ks))
    | [], [], _, _ => by simp [editKids, mergeKids, emptyBody, freshBody]
    | [], _ :: _, hd, _ => by simp [conformsBody] at hd
    | _ :: _, [], hd, _ => by simp [conformsBody] at hd
    | s :: ss, d :: ds, hd, hu => by
      simp only [conformsBody, Bool.and_eq_true] at hd
      simp only [uniqueKeysBody, Bool.and_eq_true] at hu
      simp [editKids, mergeKids, emptyBody, freshBody, edit_insert_new s d hd.1 hu.1,
        editKids_insert_new ss ds hd.2 hu.2]
end

/-- one child at the level being inserted: succeeds with the merge iff nothing exists there -/
theorem edit_insert_child (s : Schema) (d t : Data) (hd : conforms s d = true) (ht : conforms s t = true)
    (hu : uniqueKeys d = true) :
    edit .insert false s d t = if insertOK s d t then .ok (merge s d t) else .error .conflict := by
  cases s with
  | leaf dflt =>
    cases d with
    | leaf v => cases v <;> simp [edit, merge, insertOK]
    | cont _ => simp [conforms] at hd
    | list _ => simp [conforms] at hd
  | cont ks =>
    cases d with
    | leaf _ => simp [conforms] at hd
    | list _ => simp [conforms] at hd
    | cont sb =>
      cases sb with
      | none =>
        cases t with
        | cont _ => simp [edit, merge, insertOK]
        | leaf _ => simp [conforms] at ht
        | list _ => simp [conforms] at ht
      | some sb =>
        cases t with
        | leaf _ => simp [conforms] at ht
        | list _ => simp [conforms] at ht
        | cont tb =>
          cases tb with
          | some tb => simp [edit, insertOK]
          | none =>
            simp only [conforms] at hd
            simp only [uniqueKeys] at hu
            simp [edit, merge, insertOK, editKids_insert_new ks sb hd hu, Except.map]
  | list n ks =>
    cases d with
    | leaf _ => simp [conforms] at hd
    | cont _ => simp [conforms] at hd
    | list rows =>
      cases t with
      | leaf _ => simp [conforms] at ht
      | cont _ => simp [conforms] at ht
      | list trows =>
        cases rows with
        | nil => simp [edit, merge, insertOK, mergeRows]
        | cons r rs =>
          cases trows with
          | cons _ _ => simp [edit, insertOK]
          | nil =>
            simp only [conforms] at hd
            simp only [uniqueKeys, Bool.and_eq_true, decide_eq_true_eq] at hu
            have := editRows_insert ks (fun ds h1 => editKids_upsert_new ks ds h1) (r :: rs) [] hd
              (by intro k _; simp [keysOf]) hu.1
            simp [edit, merge, insertOK, this, Except.map]

/-- **insert**: same result as the merge when nothing exists at the level being inserted,
    otherwise a conflict error -/
theorem editKids_insert : ∀ (ks : List Schema) (ds ts : List Data), conformsBody ks ds = true →
    conformsBody ks ts = true → uniqueKeysBody ds = true →
    editKids .insert false ks ds ts =
      if insertOKKids ks ds ts then .ok (mergeKids ks ds ts) else .error .conflict
  | [], [], [], _, _, _ => by simp [editKids, mergeKids, insertOKKids]
  | [], [], _ :: _, _, ht, _ => by simp [conformsBody] at ht
  | [], _ :: _, _, hd, _, _ => by simp [conformsBody] at hd
  | _ :: _, [], _, hd, _, _ => by simp [conformsBody] at hd
  | _ :: _, _ :: _, [], _, ht, _ => by simp [conformsBody] at ht
  | s :: ss, d :: ds, t :: ts, hd, ht, hu => by
    simp only [conformsBody, Bool.and_eq_true] at hd ht
    simp only [uniqueKeysBody, Bool.and_eq_true] at hu
    have h1 := edit_insert_child s d t hd.1 ht.1 hu.1
    have h2 := editKids_insert ss ds ts hd.2 ht.2 hu.2
    simp only [editKids, mergeKids, insertOKKids, h1, h2]
    by_cases ho : insertOK s d t = true
    · by_cases hr : insertOKKids ss ds ts = true
      · simp [ho, hr]
      · simp [ho, hr]
    · simp [ho]

end YangVerif.Data
