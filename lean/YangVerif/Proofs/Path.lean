/-
  Helper lemmas for C08: escaping is injective and splitting recovers the segments.
-/
import YangVerif.Model.Path
set_option linter.unusedSimpArgs false
set_option linter.unusedVariables false
namespace YangVerif.Path

theorem unhex_hexUp (n : Nat) (h : n < 16) : unhex (hexUp n) = some n := by
  unfold hexUp unhex
  by_cases h10 : n < 10
  · simp [h10]; omega
  · simp [h10]
    have h1 : ¬ (48 ≤ 55 + n ∧ 55 + n ≤ 57) := by omega
    have h2 : ¬ (97 ≤ 55 + n ∧ 55 + n ≤ 102) := by omega
    have h3 : (65 ≤ 55 + n ∧ 55 + n ≤ 70) := by omega
    simp [h1, h2, h3]

theorem unreserved_not_special (b : Nat) (h : isUnreserved b = true) :
    b ≠ 37 ∧ b ≠ 43 ∧ b ≠ 47 ∧ b ≠ 44 ∧ b ≠ 61 := by
  unfold isUnreserved at h
  simp at h
  omega

theorem unescape_cons_other (c : Nat) (rest : Bytes) (h37 : c ≠ 37) (h43 : c ≠ 43) :
    unescape (c :: rest) = (unescape rest).map (c :: ·) := by
  rw [unescape.eq_def]; simp [h37, h43]

theorem unescape_plus (rest : Bytes) : unescape (43 :: rest) = (unescape rest).map (32 :: ·) := by
  rw [unescape.eq_def]; simp

theorem unescape_pct (h1 h2 : Nat) (r : Bytes) :
    unescape (37 :: h1 :: h2 :: r) =
      match unhex h1, unhex h2, unescape r with
      | some a, some b, some r' => some ((a * 16 + b) :: r')
      | _, _, _ => none := by
  rw [unescape.eq_def]; simp; rfl

theorem unescape_escapeByte (b : Nat) (hb : b < 256) (rest : Bytes) :
    unescape (escapeByte b ++ rest) = (unescape rest).map (b :: ·) := by
  unfold escapeByte
  by_cases hu : isUnreserved b = true
  · have := unreserved_not_special b hu
    simp only [hu, if_true, List.singleton_append]
    exact unescape_cons_other b rest this.1 this.2.1
  · simp only [hu, Bool.false_eq_true, if_false]
    by_cases h32 : b = 32
    · subst h32
      simp only [beq_self_eq_true, if_true, List.singleton_append]
      exact unescape_plus rest
    · have : (b == 32) = false := by simpa using h32
      simp only [this, Bool.false_eq_true, if_false, List.cons_append, List.nil_append]
      rw [unescape_pct]
      rw [unhex_hexUp (b / 16) (by omega), unhex_hexUp (b % 16) (by omega)]
      have hb' : b / 16 * 16 + b % 16 = b := by omega
      cases unescape rest <;> simp [hb']

theorem unescape_escape (bs : Bytes) (h : ∀ b ∈ bs, b < 256) : unescape (escape bs) = some bs := by
  induction bs with
  | nil => simp [escape, unescape]
  | cons b bs ih =>
    have hb := h b (List.mem_cons_self ..)
    have ih' := ih (fun x hx => h x (List.mem_cons_of_mem _ hx))
    unfold escape at ih' ⊢
    rw [List.flatMap_cons, unescape_escapeByte b hb, ih']
    rfl

theorem hexUp_range (n : Nat) (h : n < 16) : (48 ≤ hexUp n ∧ hexUp n ≤ 57) ∨ (65 ≤ hexUp n ∧ hexUp n ≤ 70) := by
  unfold hexUp; by_cases h10 : n < 10 <;> simp [h10] <;> omega

/-- escaped text never contains '/', ',' or '=' -/
theorem escape_no_special (bs : Bytes) (h : ∀ b ∈ bs, b < 256) :
    ∀ c ∈ escape bs, c ≠ 47 ∧ c ≠ 44 ∧ c ≠ 61 := by
  intro c hc
  unfold escape at hc
  rw [List.mem_flatMap] at hc
  obtain ⟨b, hb, hcb⟩ := hc
  have hb256 := h b hb
  unfold escapeByte at hcb
  by_cases hu : isUnreserved b = true
  · simp [hu] at hcb; subst hcb
    have := unreserved_not_special c hu; omega
  · simp only [hu, Bool.false_eq_true, if_false] at hcb
    by_cases h32 : (b == 32) = true
    · simp [h32] at hcb; omega
    · simp only [h32, Bool.false_eq_true, if_false] at hcb
      simp at hcb
      have r1 := hexUp_range (b / 16) (by omega)
      have r2 := hexUp_range (b % 16) (by omega)
      rcases hcb with rfl | rfl | rfl <;> omega

/-! ### splitting and joining -/

theorem splitOn_ne_nil (sep : Nat) (bs : Bytes) : splitOn sep bs ≠ [] := by
  cases bs with
  | nil => simp [splitOn]
  | cons c cs =>
    simp only [splitOn]
    cases h : splitOn sep cs with
    | nil => simp
    | cons a b => by_cases hc : (c == sep) = true <;> simp [hc]

theorem splitOn_nosep (sep : Nat) (x : Bytes) (h : sep ∉ x) : splitOn sep x = [x] := by
  induction x with
  | nil => rfl
  | cons c cs ih =>
    have hc : c ≠ sep := fun e => h (by simp [e])
    have hcs : sep ∉ cs := fun hm => h (List.mem_cons_of_mem _ hm)
    simp only [splitOn, ih hcs]
    have : (c == sep) = false := by simpa using hc
    simp [this]

theorem splitOn_append (sep : Nat) (x rest : Bytes) (h : sep ∉ x) :
    splitOn sep (x ++ sep :: rest) = x :: splitOn sep rest := by
  induction x with
  | nil =>
    simp only [List.nil_append, splitOn]
    cases hs : splitOn sep rest with
    | nil => exact absurd hs (splitOn_ne_nil sep rest)
    | cons a b => simp
  | cons c cs ih =>
    have hc : c ≠ sep := fun e => h (by simp [e])
    have hcs : sep ∉ cs := fun hm => h (List.mem_cons_of_mem _ hm)
    simp only [List.cons_append, splitOn, ih hcs]
    have : (c == sep) = false := by simpa using hc
    simp [this]

theorem splitOn_join (sep : Nat) : ∀ (xs : List Bytes), xs ≠ [] → (∀ x ∈ xs, sep ∉ x) →
    splitOn sep (join sep xs) = xs
  | [], h, _ => absurd rfl h
  | [x], _, hx => by simpa [join] using splitOn_nosep sep x (hx x (by simp))
  | x :: y :: r, _, hx => by
    have ih := splitOn_join sep (y :: r) (by simp) (fun z hz => hx z (List.mem_cons_of_mem _ hz))
    simp only [join]
    rw [splitOn_append sep x _ (hx x (by simp)), ih]

theorem splitFirst_none (sep : Nat) (x : Bytes) (h : sep ∉ x) : splitFirst sep x = none := by
  induction x with
  | nil => rfl
  | cons c cs ih =>
    have hc : c ≠ sep := fun e => h (by simp [e])
    have hcs : sep ∉ cs := fun hm => h (List.mem_cons_of_mem _ hm)
    have : (c == sep) = false := by simpa using hc
    simp [splitFirst, this, ih hcs]

theorem splitFirst_append (sep : Nat) (a b : Bytes) (h : sep ∉ a) :
    splitFirst sep (a ++ sep :: b) = some (a, b) := by
  induction a with
  | nil => simp [splitFirst]
  | cons c cs ih =>
    have hc : c ≠ sep := fun e => h (by simp [e])
    have hcs : sep ∉ cs := fun hm => h (List.mem_cons_of_mem _ hm)
    have : (c == sep) = false := by simpa using hc
    simp [splitFirst, this, ih hcs]

theorem unescape_unreserved (x : Bytes) (h : ∀ c ∈ x, isUnreserved c = true) : unescape x = some x := by
  induction x with
  | nil => rfl
  | cons c cs ih =>
    have hc := unreserved_not_special c (h c (List.mem_cons_self ..))
    have ih' := ih (fun z hz => h z (List.mem_cons_of_mem _ hz))
    rw [unescape_cons_other c cs hc.1 hc.2.1, ih']; rfl

theorem mapM_unescape_escape (ks : List Bytes) (h : ∀ k ∈ ks, ∀ c ∈ k, c < 256) :
    (ks.map escape).mapM unescape = some ks := by
  induction ks with
  | nil => rfl
  | cons k ks ih =>
    have hk := unescape_escape k (h k (List.mem_cons_self ..))
    have ih' := ih (fun z hz => h z (List.mem_cons_of_mem _ hz))
    simp [List.mapM_cons, hk, ih']

theorem join_no_sep47 (xs : List Bytes) (h : ∀ x ∈ xs, (47 : Nat) ∉ x) : (47 : Nat) ∉ join 44 xs := by
  induction xs with
  | nil => simp [join]
  | cons x r ih =>
    cases r with
    | nil => simpa [join] using h x (by simp)
    | cons y r' =>
      simp only [join]
      intro hm
      rcases List.mem_append.1 hm with h1 | h1
      · exact h x (by simp) h1
      · rcases List.mem_cons.1 h1 with h2 | h2
        · omega
        · exact ih (fun z hz => h z (List.mem_cons_of_mem _ hz)) h2

/-- a segment as the library renders it: a YANG identifier and arbitrary byte-string keys -/
def SegOK (s : Seg) : Prop :=
  s.ident ≠ [] ∧ (∀ c ∈ s.ident, isUnreserved c = true) ∧ (∀ k ∈ s.keys, ∀ c ∈ k, c < 256)

theorem parseSeg_renderSeg (s : Seg) (h : SegOK s) : parseSeg (renderSeg s) = some s := by
  obtain ⟨hne, hid, hk⟩ := h
  have h61 : (61 : Nat) ∉ s.ident := fun hm => by
    have := unreserved_not_special 61 (hid 61 hm); omega
  unfold renderSeg parseSeg
  by_cases hke : s.keys.isEmpty = true
  · have : s.keys = [] := by simpa using hke
    simp only [hke, if_true]
    rw [splitFirst_none 61 _ h61, unescape_unreserved _ hid]
    cases s; simp_all
  · simp only [hke, Bool.false_eq_true, if_false]
    rw [splitFirst_append 61 _ _ h61]
    have hne' : s.keys.map escape ≠ [] := by
      intro he; apply hke; simpa using he
    have hsep : ∀ x ∈ s.keys.map escape, (44 : Nat) ∉ x := by
      intro x hx hm
      obtain ⟨k, hkm, rfl⟩ := List.mem_map.1 hx
      have := escape_no_special k (hk k hkm) 44 hm; omega
    simp only
    rw [splitOn_join 44 _ hne' hsep, unescape_unreserved _ hid, mapM_unescape_escape _ hk]

theorem renderSeg_no_slash (s : Seg) (h : SegOK s) : (47 : Nat) ∉ renderSeg s := by
  obtain ⟨hne, hid, hk⟩ := h
  have h47 : (47 : Nat) ∉ s.ident := fun hm => by
    have := unreserved_not_special 47 (hid 47 hm); omega
  unfold renderSeg
  by_cases hke : s.keys.isEmpty = true
  · simpa [hke] using h47
  · simp only [hke, Bool.false_eq_true, if_false]
    intro hm
    rcases List.mem_append.1 hm with h1 | h1
    · exact h47 h1
    · rcases List.mem_cons.1 h1 with h2 | h2
      · omega
      · refine join_no_sep47 _ ?_ h2
        intro x hx hm'
        obtain ⟨k, hkm, rfl⟩ := List.mem_map.1 hx
        have := escape_no_special k (hk k hkm) 47 hm'; omega

theorem renderSeg_nonempty (s : Seg) (h : SegOK s) : (renderSeg s).isEmpty = false := by
  obtain ⟨hne, _, _⟩ := h
  unfold renderSeg
  by_cases hke : s.keys.isEmpty = true
  · simp [hke, hne]
  · simp [hke]

theorem mapM_parseSeg_render (segs : List Seg) (h : ∀ s ∈ segs, SegOK s) :
    (segs.map renderSeg).mapM parseSeg = some segs := by
  induction segs with
  | nil => rfl
  | cons s r ih =>
    have hs := parseSeg_renderSeg s (h s (List.mem_cons_self ..))
    have ih' := ih (fun z hz => h z (List.mem_cons_of_mem _ hz))
    simp [List.mapM_cons, hs, ih']

theorem takeWhile_all {α : Type} (p : α → Bool) (xs : List α) (h : ∀ x ∈ xs, p x = true) :
    xs.takeWhile p = xs := by
  induction xs with
  | nil => rfl
  | cons x r ih =>
    simp [List.takeWhile, h x (List.mem_cons_self ..), ih (fun z hz => h z (List.mem_cons_of_mem _ hz))]

theorem parsePath_renderPath (segs : List Seg) (h : ∀ s ∈ segs, SegOK s) :
    parsePath (renderPath segs) = some segs := by
  unfold parsePath renderPath
  cases segs with
  | nil => simp [join, splitOn]
  | cons s r =>
    have hne : (s :: r).map renderSeg ≠ [] := by simp
    have hsep : ∀ x ∈ (s :: r).map renderSeg, (47 : Nat) ∉ x := by
      intro x hx
      obtain ⟨t, ht, rfl⟩ := List.mem_map.1 hx
      exact renderSeg_no_slash t (h t ht)
    rw [splitOn_join 47 _ hne hsep]
    rw [takeWhile_all]
    · exact mapM_parseSeg_render _ h
    · intro x hx
      obtain ⟨t, ht, rfl⟩ := List.mem_map.1 hx
      simp [renderSeg_nonempty t (h t ht)]

end YangVerif.Path
