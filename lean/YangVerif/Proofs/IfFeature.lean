/-
  Helper lemmas for C11: the stack evaluator computes the RFC 7950 meaning of every
  if-feature expression.
-/
import YangVerif.Model.IfFeature
set_option linter.unusedSimpArgs false
set_option linter.unusedVariables false
namespace YangVerif.IfFeature

variable (env : String → Bool)

/-- unfolding of one iteration for a token that is not ")" -/
theorem evalF_step (f : Nat) (g : Bool) (t : Tok) (r : List Tok) (cur : Option Bool) (ht : t ≠ .rp) :
    evalF env (f + 1) g (t :: r) cur =
      match switchF (fun g' r' => evalF env f g' r' none) env t r cur with
      | none => none
      | some (r', c') => if g then some (r', c') else evalF env f false r' c' := by
  rw [evalF.eq_def]
  simp only [ht, if_false]
  rfl

/-- the switch only gets better with a nested evaluator that succeeds more often (on the rest `r`) -/
theorem switchF_congr (rec1 rec2 : Bool → List Tok → Option St) (t : Tok) (r : List Tok) (cur : Option Bool)
    (hrec : ∀ g R, rec1 g r = some R → rec2 g r = some R) (R : St)
    (h : switchF rec1 env t r cur = some R) : switchF rec2 env t r cur = some R := by
  cases t <;> cases cur <;> simp only [switchF] at h ⊢ <;> try (first | exact h | cases h)
  · -- lp, none
    cases hn : rec1 false r with
    | none => simp [hn] at h
    | some p => rw [hrec _ _ hn]; rw [hn] at h; exact h
  · -- and, some
    cases hn : rec1 true r with
    | none => simp [hn] at h
    | some p => rw [hrec _ _ hn]; rw [hn] at h; exact h
  · -- or, some
    cases hn : rec1 false r with
    | none => simp [hn] at h
    | some p => rw [hrec _ _ hn]; rw [hn] at h; exact h
  · -- not, none
    cases hn : rec1 true r with
    | none => simp [hn] at h
    | some p => rw [hrec _ _ hn]; rw [hn] at h; exact h

/-- more fuel never changes a successful result -/
theorem evalF_mono : ∀ (f : Nat) (g : Bool) (toks : List Tok) (cur : Option Bool) (R : St),
    evalF env f g toks cur = some R → evalF env (f + 1) g toks cur = some R := by
  intro f
  induction f with
  | zero => intro g toks cur R h; simp [evalF] at h
  | succ f ih =>
    intro g toks cur R h
    cases toks with
    | nil => simpa [evalF] using h
    | cons t r =>
      by_cases ht : t = .rp
      · subst ht; simpa [evalF] using h
      · rw [evalF_step env _ g t r cur ht] at h ⊢
        cases hs : switchF (fun g' r' => evalF env f g' r' none) env t r cur with
        | none => simp [hs] at h
        | some p =>
          rw [switchF_congr env _ (fun g' r' => evalF env (f + 1) g' r' none) t r cur
            (fun g R hh => ih g r none R hh) p hs]
          rw [hs] at h
          obtain ⟨r', c'⟩ := p
          cases g with
          | true => simpa using h
          | false => simp only [Bool.false_eq_true, if_false] at h ⊢; exact ih _ _ _ _ h

theorem evalF_mono_le (f f' : Nat) (hle : f ≤ f') (g : Bool) (toks : List Tok) (cur : Option Bool) (R : St)
    (h : evalF env f g toks cur = some R) : evalF env f' g toks cur = some R := by
  induction hle with
  | refl => exact h
  | step _ ih => exact evalF_mono env _ _ _ _ _ ih

/-- "evaluates to R with some amount of fuel" -/
def Evals (g : Bool) (toks : List Tok) (cur : Option Bool) (R : St) : Prop :=
  ∃ f, evalF env f g toks cur = some R

theorem Evals.nil (cur : Option Bool) : Evals env false [] cur ([], cur) := ⟨1, by simp [evalF]⟩

theorem Evals.rp (g : Bool) (r : List Tok) (cur : Option Bool) : Evals env g (.rp :: r) cur (.rp :: r, cur) :=
  ⟨1, by simp [evalF]⟩

/-- at the end of the input or in front of a ")" the loop stops and leaves everything as it is -/
theorem Evals.stop (rest : List Tok) (cur : Option Bool) (h : rest = [] ∨ ∃ r, rest = .rp :: r) :
    Evals env false rest cur (rest, cur) := by
  rcases h with rfl | ⟨r, rfl⟩
  · exact Evals.nil env cur
  · exact Evals.rp env false r cur

/-- a non-greedy run = one greedy step, then the loop goes on -/
theorem Evals.cont (t : Tok) (r : List Tok) (cur : Option Bool) (ht : t ≠ .rp) (r' : List Tok) (c' : Option Bool) (R : St)
    (h1 : Evals env true (t :: r) cur (r', c')) (h2 : Evals env false r' c' R) :
    Evals env false (t :: r) cur R := by
  obtain ⟨f1, h1⟩ := h1
  obtain ⟨f2, h2⟩ := h2
  cases f1 with
  | zero => simp [evalF] at h1
  | succ f1 =>
    refine ⟨max f1 f2 + 1, ?_⟩
    have h1' := evalF_mono_le env (f1 + 1) (max f1 f2 + 1) (by omega) _ _ _ _ h1
    have h2' := evalF_mono_le env f2 (max f1 f2) (by omega) _ _ _ _ h2
    rw [evalF_step env _ _ t r cur ht] at h1' ⊢
    cases hs : switchF (fun g' r' => evalF env (max f1 f2) g' r' none) env t r cur with
    | none => simp [hs] at h1'
    | some p =>
      obtain ⟨a, b⟩ := p
      simp only [hs, if_true, Option.some.injEq, Prod.mk.injEq] at h1'
      obtain ⟨rfl, rfl⟩ := h1'
      simpa using h2'

theorem Evals.feat (s : String) (rest : List Tok) :
    Evals env true (.feat s :: rest) none (rest, some (env s)) :=
  ⟨1, by rw [evalF_step env _ _ _ _ _ (by simp)]; simp [switchF]⟩

theorem Evals.notStep (toks rest : List Tok) (v : Bool)
    (h : Evals env true toks none (rest, some v)) : Evals env true (.not :: toks) none (rest, some (!v)) := by
  obtain ⟨f, h⟩ := h
  exact ⟨f + 1, by rw [evalF_step env _ _ _ _ _ (by simp)]; simp [switchF, h]⟩

theorem Evals.andStep (toks rest : List Tok) (acc v : Bool)
    (h : Evals env true toks none (rest, some v)) :
    Evals env true (.and :: toks) (some acc) (rest, some (acc && v)) := by
  obtain ⟨f, h⟩ := h
  exact ⟨f + 1, by rw [evalF_step env _ _ _ _ _ (by simp)]; simp [switchF, h]⟩

theorem Evals.orStep (toks rest : List Tok) (acc v : Bool)
    (h : Evals env false toks none (rest, some v)) :
    Evals env true (.or :: toks) (some acc) (rest, some (acc || v)) := by
  obtain ⟨f, h⟩ := h
  exact ⟨f + 1, by rw [evalF_step env _ _ _ _ _ (by simp)]; simp [switchF, h]⟩

theorem Evals.parenStep (toks rest : List Tok) (v : Bool)
    (h : Evals env false toks none (.rp :: rest, some v)) :
    Evals env true (.lp :: toks) none (rest, some v) := by
  obtain ⟨f, h⟩ := h
  exact ⟨f + 1, by rw [evalF_step env _ _ _ _ _ (by simp)]; simp [switchF, h]⟩

/-- the tokens of a factor start with a token that is not ")" -/
theorem NotE.toks_head (n : NotE) : ∃ t r, n.toks = t :: r ∧ t ≠ .rp := by
  cases n with
  | prim p =>
    cases p with
    | feat s => exact ⟨.feat s, [], by simp [NotE.toks, Prim.toks], by simp⟩
    | paren o => exact ⟨.lp, o.toks ++ [.rp], by simp [NotE.toks, Prim.toks], by simp⟩
  | not n => exact ⟨.not, n.toks, by simp [NotE.toks], by simp⟩

mutual
  theorem Prim.evals (p : Prim) : ∀ (rest : List Tok),
      Evals env true (p.toks ++ rest) none (rest, some (p.sem env)) := by
    cases p with
    | feat s => intro rest; simpa [Prim.toks, Prim.sem] using Evals.feat env s rest
    | paren o =>
      intro rest
      have h := OrE.evals o (.rp :: rest) (Or.inr ⟨rest, rfl⟩)
      have := Evals.parenStep env (o.toks ++ .rp :: rest) rest (o.sem env) h
      simpa [Prim.toks, Prim.sem] using this
  theorem NotE.evals (n : NotE) : ∀ (rest : List Tok),
      Evals env true (n.toks ++ rest) none (rest, some (n.sem env)) := by
    cases n with
    | prim p => intro rest; simpa [NotE.toks, NotE.sem] using Prim.evals p rest
    | not n' =>
      intro rest
      have h := NotE.evals n' rest
      simpa [NotE.toks, NotE.sem] using Evals.notStep env _ rest _ h
  /-- "and a" continues a conjunction whose value so far is `acc` -/
  theorem AndE.evalsTail (a : AndE) : ∀ (acc : Bool) (rest : List Tok) (R : St),
      Evals env false rest (some (acc && a.sem env)) R →
      Evals env false (.and :: a.toks ++ rest) (some acc) R := by
    cases a with
    | one n =>
      intro acc rest R h
      have hn := NotE.evals n rest
      have hs := Evals.andStep env (n.toks ++ rest) rest acc (n.sem env) hn
      have := Evals.cont env .and (n.toks ++ rest) (some acc) (by simp) rest _ R hs (by simpa [AndE.sem] using h)
      simpa [AndE.toks] using this
    | cons n a' =>
      intro acc rest R h
      have hn := NotE.evals n (.and :: a'.toks ++ rest)
      have hs := Evals.andStep env _ _ acc (n.sem env) hn
      have ih := AndE.evalsTail a' (acc && n.sem env) rest R (by simpa [AndE.sem, Bool.and_assoc] using h)
      have := Evals.cont env .and _ (some acc) (by simp) _ _ R hs ih
      simpa [AndE.toks, List.append_assoc] using this
  theorem AndE.evals (a : AndE) : ∀ (rest : List Tok) (R : St),
      Evals env false rest (some (a.sem env)) R → Evals env false (a.toks ++ rest) none R := by
    cases a with
    | one n =>
      intro rest R h
      obtain ⟨t, r, hh, ht⟩ := NotE.toks_head n
      have hn := NotE.evals n rest
      simp only [AndE.toks, AndE.sem] at h ⊢
      rw [hh] at hn ⊢
      exact Evals.cont env t (r ++ rest) none ht rest _ R hn h
    | cons n a' =>
      intro rest R h
      obtain ⟨t, r, hh, ht⟩ := NotE.toks_head n
      have hn := NotE.evals n (.and :: a'.toks ++ rest)
      have htail := AndE.evalsTail a' (n.sem env) rest R (by simpa [AndE.sem] using h)
      simp only [AndE.toks, List.append_assoc, List.cons_append]
      rw [hh] at hn ⊢
      exact Evals.cont env t _ none ht _ _ R hn htail
  theorem OrE.evals (o : OrE) : ∀ (rest : List Tok),
      (rest = [] ∨ ∃ r, rest = .rp :: r) →
      Evals env false (o.toks ++ rest) none (rest, some (o.sem env)) := by
    cases o with
    | one a =>
      intro rest hr
      simpa [OrE.toks, OrE.sem] using AndE.evals a rest _ (Evals.stop env rest _ hr)
    | cons a o' =>
      intro rest hr
      have ih := OrE.evals o' rest hr
      have hs := Evals.orStep env (o'.toks ++ rest) rest (a.sem env) (o'.sem env) ih
      have hc := Evals.cont env .or _ (some (a.sem env)) (by simp) _ _ _ hs (Evals.stop env rest _ hr)
      have := AndE.evals a (.or :: o'.toks ++ rest) _ hc
      simpa [OrE.toks, OrE.sem, List.append_assoc] using this
end

/-- the switch never lengthens the input, if the nested evaluator does not -/
theorem switchF_len (rec : Bool → List Tok → Option St) (t : Tok) (r : List Tok) (cur : Option Bool)
    (hrec : ∀ g R, rec g r = some R → R.1.length ≤ r.length) (R : St)
    (h : switchF rec env t r cur = some R) : R.1.length ≤ r.length := by
  cases t <;> cases cur <;> simp only [switchF] at h <;> try (cases h)
  · -- lp
    cases hn : rec false r with
    | none => simp [hn] at h
    | some p =>
      have hl := hrec _ _ hn
      rw [hn] at h
      obtain ⟨r2, c⟩ := p
      cases r2 with
      | nil => simp at h
      | cons x xs =>
        cases x <;> cases c <;> simp at h
        rw [← h]; simp at hl ⊢; omega
  · -- and
    cases hn : rec true r with
    | none => simp [hn] at h
    | some p =>
      have hl := hrec _ _ hn
      rw [hn] at h
      obtain ⟨r1, c⟩ := p
      cases c <;> simp at h
      rw [← h]; exact hl
  · -- or
    cases hn : rec false r with
    | none => simp [hn] at h
    | some p =>
      have hl := hrec _ _ hn
      rw [hn] at h
      obtain ⟨r1, c⟩ := p
      cases c <;> simp at h
      rw [← h]; exact hl
  · -- not
    cases hn : rec true r with
    | none => simp [hn] at h
    | some p =>
      have hl := hrec _ _ hn
      rw [hn] at h
      obtain ⟨r1, c⟩ := p
      cases c <;> simp at h
      rw [← h]; exact hl
  · -- feat
    exact Nat.le_refl _

theorem evalF_len : ∀ (f : Nat) (g : Bool) (toks : List Tok) (cur : Option Bool) (R : St),
    evalF env f g toks cur = some R → R.1.length ≤ toks.length := by
  intro f
  induction f with
  | zero => intro g toks cur R h; simp [evalF] at h
  | succ f ih =>
    intro g toks cur R h
    cases toks with
    | nil => simp [evalF] at h; rw [← h]; simp
    | cons t r =>
      by_cases ht : t = .rp
      · subst ht; simp [evalF] at h; rw [← h]; simp
      · rw [evalF_step env _ g t r cur ht] at h
        cases hs : switchF (fun g' r' => evalF env f g' r' none) env t r cur with
        | none => simp [hs] at h
        | some p =>
          have hl := switchF_len env _ t r cur (fun g R => ih g r none R) p hs
          rw [hs] at h
          obtain ⟨r', c'⟩ := p
          cases g with
          | true => simp at h; rw [← h]; simp at hl ⊢; omega
          | false =>
            simp only [Bool.false_eq_true, if_false] at h
            have := ih _ _ _ _ h
            simp at hl ⊢; omega

/-- `length + 1` is always enough fuel: whatever any amount of fuel computes, it computes too -/
theorem fuel_enough : ∀ (f' : Nat) (f : Nat) (g : Bool) (toks : List Tok) (cur : Option Bool) (R : St),
    toks.length + 1 ≤ f → evalF env f' g toks cur = some R → evalF env f g toks cur = some R := by
  intro f'
  induction f' with
  | zero => intro f g toks cur R _ h; simp [evalF] at h
  | succ f' ih =>
    intro f g toks cur R hf h
    cases f with
    | zero => omega
    | succ f0 =>
      cases toks with
      | nil => simpa [evalF] using h
      | cons t r =>
        by_cases ht : t = .rp
        · subst ht; simpa [evalF] using h
        · rw [evalF_step env _ g t r cur ht] at h ⊢
          simp only [List.length_cons] at hf
          cases hs : switchF (fun g' r' => evalF env f' g' r' none) env t r cur with
          | none => simp [hs] at h
          | some p =>
            have hl := switchF_len env _ t r cur (fun g R => evalF_len env f' g r none R) p hs
            rw [switchF_congr env _ (fun g' r' => evalF env f0 g' r' none) t r cur
              (fun g R hh => ih f0 g r none R (by omega) hh) p hs]
            rw [hs] at h
            obtain ⟨r', c'⟩ := p
            cases g with
            | true => simpa using h
            | false =>
              simp only [Bool.false_eq_true, if_false] at h ⊢
              exact ih f0 false r' c' R (by simp at hl; omega) h

/-- **the evaluator computes the RFC 7950 meaning** of every expression of the grammar -/
theorem evaluate_eq_sem (o : OrE) : evaluate env o.toks = some (o.sem env) := by
  obtain ⟨f, hf⟩ := OrE.evals env o [] (Or.inl rfl)
  simp only [List.append_nil] at hf
  have := fuel_enough env f (o.toks.length + 1) false o.toks none _ (Nat.le_refl _) hf
  simp [evaluate, this]

end YangVerif.IfFeature
