/-
  Helper lemmas for C11: the stack evaluator computes the RFC 7950 meaning of every
  if-feature expression.
-/
import YangVerif.Model.IfFeature
set_option linter.unusedSimpArgs false
set_option linter.unusedVariables false
namespace YangVerif.IfFeature

variable (env : String → Bool)

/-- unfolding of one iteration for a token that is not ")" -/
theorem evalF_step (f : Nat) (g : Bool) (t : Tok) (r : List Tok) (st : List Bool) (ht : t ≠ .rp) :
    evalF false env (f + 1) g (t :: r) st =
      match switchF (evalF false env f) false env t r st with
      | none => none
      | some (r', s') => if g then some (r', s') else evalF false env f false r' s' := by
  rw [evalF.eq_def]
  simp only [ht, if_false]
  rfl

/-- the switch only gets better with a better nested evaluator -/
theorem switchF_mono (rec1 rec2 : Bool → List Tok → List Bool → Option St)
    (hrec : ∀ g toks st R, rec1 g toks st = some R → rec2 g toks st = some R)
    (t : Tok) (r : List Tok) (st : List Bool) (R : St)
    (h : switchF rec1 false env t r st = some R) : switchF rec2 false env t r st = some R := by
  cases t with
  | rp => simp [switchF] at h
  | feat s => simpa [switchF] using h
  | lp =>
    simp only [switchF] at h ⊢
    cases hn : rec1 false r st with
    | none => simp [hn] at h
    | some p => rw [hrec _ _ _ _ hn]; rw [hn] at h; exact h
  | and =>
    simp only [switchF] at h ⊢
    cases hn : rec1 true r st with
    | none => simp [hn] at h
    | some p => rw [hrec _ _ _ _ hn]; rw [hn] at h; exact h
  | or =>
    simp only [switchF] at h ⊢
    cases hn : rec1 false r st with
    | none => simp [hn] at h
    | some p => rw [hrec _ _ _ _ hn]; rw [hn] at h; exact h
  | not =>
    simp only [switchF] at h ⊢
    cases hn : rec1 true r st with
    | none => simp [hn] at h
    | some p => rw [hrec _ _ _ _ hn]; rw [hn] at h; exact h

/-- more fuel never changes a successful result -/
theorem evalF_mono : ∀ (f : Nat) (g : Bool) (toks : List Tok) (st : List Bool) (R : St),
    evalF false env f g toks st = some R → evalF false env (f + 1) g toks st = some R := by
  intro f
  induction f with
  | zero => intro g toks st R h; simp [evalF] at h
  | succ f ih =>
    intro g toks st R h
    cases toks with
    | nil => simpa [evalF] using h
    | cons t r =>
      by_cases ht : t = .rp
      · subst ht; simpa [evalF] using h
      · rw [evalF_step env _ g t r st ht] at h ⊢
        cases hs : switchF (evalF false env f) false env t r st with
        | none => simp [hs] at h
        | some p =>
          rw [switchF_mono env _ _ ih t r st p hs]
          rw [hs] at h
          obtain ⟨r', s'⟩ := p
          cases g with
          | true => simpa using h
          | false => simp only [Bool.false_eq_true, if_false] at h ⊢; exact ih _ _ _ _ h

theorem evalF_mono_le (f f' : Nat) (hle : f ≤ f') (g : Bool) (toks : List Tok) (st : List Bool) (R : St)
    (h : evalF false env f g toks st = some R) : evalF false env f' g toks st = some R := by
  induction hle with
  | refl => exact h
  | step _ ih => exact evalF_mono env _ _ _ _ _ ih

/-- "evaluates to R with some amount of fuel" -/
def Evals (g : Bool) (toks : List Tok) (st : List Bool) (R : St) : Prop :=
  ∃ f, evalF false env f g toks st = some R

end YangVerif.IfFeature

namespace YangVerif.IfFeature
variable (env : String → Bool)

theorem Evals.nil (st : List Bool) : Evals env false [] st ([], st) := ⟨1, by simp [evalF]⟩

theorem Evals.rp (g : Bool) (r : List Tok) (st : List Bool) : Evals env g (.rp :: r) st (.rp :: r, st) :=
  ⟨1, by simp [evalF]⟩

/-- at the end of the input or in front of a ")" the loop stops and leaves everything as it is -/
theorem Evals.stop (rest : List Tok) (st : List Bool) (h : rest = [] ∨ ∃ r, rest = .rp :: r) :
    Evals env false rest st (rest, st) := by
  rcases h with rfl | ⟨r, rfl⟩
  · exact Evals.nil env st
  · exact Evals.rp env false r st

/-- a non-greedy run = one greedy step, then the loop goes on -/
theorem Evals.cont (t : Tok) (r : List Tok) (st : List Bool) (ht : t ≠ .rp) (r' : List Tok) (s' : List Bool) (R : St)
    (h1 : Evals env true (t :: r) st (r', s')) (h2 : Evals env false r' s' R) :
    Evals env false (t :: r) st R := by
  obtain ⟨f1, h1⟩ := h1
  obtain ⟨f2, h2⟩ := h2
  cases f1 with
  | zero => simp [evalF] at h1
  | succ f1 =>
    refine ⟨max f1 f2 + 1, ?_⟩
    have h1' := evalF_mono_le env (f1 + 1) (max f1 f2 + 1) (by omega) _ _ _ _ h1
    have h2' := evalF_mono_le env f2 (max f1 f2) (by omega) _ _ _ _ h2
    rw [evalF_step env _ _ t r st ht] at h1' ⊢
    cases hs : switchF (evalF false env (max f1 f2)) false env t r st with
    | none => simp [hs] at h1'
    | some p =>
      obtain ⟨a, b⟩ := p
      simp only [hs, if_true, Option.some.injEq, Prod.mk.injEq] at h1'
      obtain ⟨rfl, rfl⟩ := h1'
      simpa using h2'

theorem Evals.feat (s : String) (rest : List Tok) (st : List Bool) :
    Evals env true (.feat s :: rest) st (rest, env s :: st) :=
  ⟨1, by rw [evalF_step env _ _ _ _ _ (by simp)]; simp [switchF]⟩

theorem Evals.notStep (toks rest : List Tok) (st : List Bool) (v : Bool)
    (h : Evals env true toks st (rest, v :: st)) : Evals env true (.not :: toks) st (rest, (!v) :: st) := by
  obtain ⟨f, h⟩ := h
  exact ⟨f + 1, by rw [evalF_step env _ _ _ _ _ (by simp)]; simp [switchF, h, pop1]⟩

theorem Evals.andStep (toks rest : List Tok) (st : List Bool) (acc v : Bool)
    (h : Evals env true toks (acc :: st) (rest, v :: acc :: st)) :
    Evals env true (.and :: toks) (acc :: st) (rest, (acc && v) :: st) := by
  obtain ⟨f, h⟩ := h
  exact ⟨f + 1, by rw [evalF_step env _ _ _ _ _ (by simp)]; simp [switchF, h, pop2]⟩

theorem Evals.orStep (toks rest : List Tok) (st : List Bool) (acc v : Bool)
    (h : Evals env false toks (acc :: st) (rest, v :: acc :: st)) :
    Evals env true (.or :: toks) (acc :: st) (rest, (acc || v) :: st) := by
  obtain ⟨f, h⟩ := h
  exact ⟨f + 1, by rw [evalF_step env _ _ _ _ _ (by simp)]; simp [switchF, h, pop2]⟩

theorem Evals.parenStep (toks rest : List Tok) (st : List Bool) (v : Bool)
    (h : Evals env false toks st (.rp :: rest, v :: st)) :
    Evals env true (.lp :: toks) st (rest, v :: st) := by
  obtain ⟨f, h⟩ := h
  exact ⟨f + 1, by rw [evalF_step env _ _ _ _ _ (by simp)]; simp [switchF, h]⟩

/-- the tokens of a factor start with a token that is not ")" -/
theorem NotE.toks_head (n : NotE) : ∃ t r, n.toks = t :: r ∧ t ≠ .rp := by
  cases n with
  | prim p =>
    cases p with
    | feat s => exact ⟨.feat s, [], by simp [NotE.toks, Prim.toks], by simp⟩
    | paren o => exact ⟨.lp, o.toks ++ [.rp], by simp [NotE.toks, Prim.toks], by simp⟩
  | not n => exact ⟨.not, n.toks, by simp [NotE.toks], by simp⟩

mutual
  theorem Prim.evals (p : Prim) : ∀ (rest : List Tok) (st : List Bool),
      Evals env true (p.toks ++ rest) st (rest, p.sem env :: st) := by
    cases p with
    | feat s => intro rest st; simpa [Prim.toks, Prim.sem] using Evals.feat env s rest st
    | paren o =>
      intro rest st
      have h := OrE.evals o (.rp :: rest) st (Or.inr ⟨rest, rfl⟩)
      have := Evals.parenStep env (o.toks ++ .rp :: rest) rest st (o.sem env) h
      simpa [Prim.toks, Prim.sem] using this
  theorem NotE.evals (n : NotE) : ∀ (rest : List Tok) (st : List Bool),
      Evals env true (n.toks ++ rest) st (rest, n.sem env :: st) := by
    cases n with
    | prim p => intro rest st; simpa [NotE.toks, NotE.sem] using Prim.evals p rest st
    | not n' =>
      intro rest st
      have h := NotE.evals n' rest st
      simpa [NotE.toks, NotE.sem] using Evals.notStep env _ rest st _ h
  /-- "and a" continues a conjunction whose value so far is on the stack -/
  theorem AndE.evalsTail (a : AndE) : ∀ (acc : Bool) (rest : List Tok) (st : List Bool) (R : St),
      Evals env false rest ((acc && a.sem env) :: st) R →
      Evals env false (.and :: a.toks ++ rest) (acc :: st) R := by
    cases a with
    | one n =>
      intro acc rest st R h
      have hn := NotE.evals n rest (acc :: st)
      have hs := Evals.andStep env (n.toks ++ rest) rest st acc (n.sem env) hn
      have := Evals.cont env .and (n.toks ++ rest) (acc :: st) (by simp) rest _ R hs (by simpa [AndE.sem] using h)
      simpa [AndE.toks] using this
    | cons n a' =>
      intro acc rest st R h
      have hn := NotE.evals n (.and :: a'.toks ++ rest) (acc :: st)
      have hs := Evals.andStep env _ _ st acc (n.sem env) hn
      have ih := AndE.evalsTail a' (acc && n.sem env) rest st R (by simpa [AndE.sem, Bool.and_assoc] using h)
      have := Evals.cont env .and _ (acc :: st) (by simp) _ _ R hs ih
      simpa [AndE.toks, List.append_assoc] using this
  theorem AndE.evals (a : AndE) : ∀ (rest : List Tok) (st : List Bool) (R : St),
      Evals env false rest (a.sem env :: st) R → Evals env false (a.toks ++ rest) st R := by
    cases a with
    | one n =>
      intro rest st R h
      obtain ⟨t, r, hh, ht⟩ := NotE.toks_head n
      have hn := NotE.evals n rest st
      simp only [AndE.toks, AndE.sem] at h ⊢
      rw [hh] at hn ⊢
      exact Evals.cont env t (r ++ rest) st ht rest _ R hn h
    | cons n a' =>
      intro rest st R h
      obtain ⟨t, r, hh, ht⟩ := NotE.toks_head n
      have hn := NotE.evals n (.and :: a'.toks ++ rest) st
      have htail := AndE.evalsTail a' (n.sem env) rest st R (by simpa [AndE.sem] using h)
      simp only [AndE.toks, List.append_assoc, List.cons_append]
      rw [hh] at hn ⊢
      exact Evals.cont env t _ st ht _ _ R hn htail
  theorem OrE.evals (o : OrE) : ∀ (rest : List Tok) (st : List Bool),
      (rest = [] ∨ ∃ r, rest = .rp :: r) →
      Evals env false (o.toks ++ rest) st (rest, o.sem env :: st) := by
    cases o with
    | one a =>
      intro rest st hr
      simpa [OrE.toks, OrE.sem] using AndE.evals a rest st _ (Evals.stop env rest _ hr)
    | cons a o' =>
      intro rest st hr
      have ih := OrE.evals o' rest (a.sem env :: st) hr
      have hs := Evals.orStep env (o'.toks ++ rest) rest st (a.sem env) (o'.sem env) ih
      have hc := Evals.cont env .or _ (a.sem env :: st) (by simp) _ _ _ hs (Evals.stop env rest _ hr)
      have := AndE.evals a (.or :: o'.toks ++ rest) st _ hc
      simpa [OrE.toks, OrE.sem, List.append_assoc] using this
end

end YangVerif.IfFeature

namespace YangVerif.IfFeature
variable (env : String → Bool)

theorem pop2_fst (op : Bool → Bool → Bool) (p q : St) (h : pop2 op p = some q) : q.1 = p.1 := by
  obtain ⟨r, s⟩ := p
  match s, h with
  | b :: a :: s, h => simp [pop2] at h; rw [← h]
theorem pop1_fst (op : Bool → Bool) (p q : St) (h : pop1 op p = some q) : q.1 = p.1 := by
  obtain ⟨r, s⟩ := p
  match s, h with
  | a :: s, h => simp [pop1] at h; rw [← h]

/-- the switch never lengthens the input, if the nested evaluator does not -/
theorem switchF_len (rec : Bool → List Tok → List Bool → Option St) (t : Tok) (r : List Tok) (st : List Bool)
    (hrec : ∀ g st R, rec g r st = some R → R.1.length ≤ r.length) (R : St)
    (h : switchF rec false env t r st = some R) : R.1.length ≤ r.length := by
  cases t with
  | rp => simp [switchF] at h
  | feat s => simp [switchF] at h; rw [← h]; exact Nat.le_refl _
  | lp =>
    simp only [switchF] at h
    cases hn : rec false r st with
    | none => simp [hn] at h
    | some p =>
      have hl := hrec _ _ _ hn
      rw [hn] at h
      obtain ⟨r2, s1⟩ := p
      cases r2 with
      | nil => simp at h
      | cons x xs =>
        cases x <;> simp at h
        rw [← h]; simp at hl ⊢; omega
  | and =>
    simp only [switchF] at h
    cases hn : rec true r st with
    | none => simp [hn] at h
    | some p =>
      rw [hn] at h; simp only [Option.bind_some] at h
      rw [pop2_fst _ _ _ h]; exact hrec _ _ _ hn
  | or =>
    simp only [switchF] at h
    cases hn : rec false r st with
    | none => simp [hn] at h
    | some p =>
      rw [hn] at h; simp only [Option.bind_some] at h
      rw [pop2_fst _ _ _ h]; exact hrec _ _ _ hn
  | not =>
    simp only [switchF] at h
    cases hn : rec true r st with
    | none => simp [hn] at h
    | some p =>
      rw [hn] at h; simp only [Option.bind_some] at h
      rw [pop1_fst _ _ _ h]; exact hrec _ _ _ hn

theorem evalF_len : ∀ (f : Nat) (g : Bool) (toks : List Tok) (st : List Bool) (R : St),
    evalF false env f g toks st = some R → R.1.length ≤ toks.length := by
  intro f
  induction f with
  | zero => intro g toks st R h; simp [evalF] at h
  | succ f ih =>
    intro g toks st R h
    cases toks with
    | nil => simp [evalF] at h; rw [← h]; simp
    | cons t r =>
      by_cases ht : t = .rp
      · subst ht; simp [evalF] at h; rw [← h]; simp
      · rw [evalF_step env _ g t r st ht] at h
        cases hs : switchF (evalF false env f) false env t r st with
        | none => simp [hs] at h
        | some p =>
          have hl := switchF_len env _ t r st (fun g st R => ih g r st R) p hs
          rw [hs] at h
          obtain ⟨r', s'⟩ := p
          cases g with
          | true => simp at h; rw [← h]; simp at hl ⊢; omega
          | false =>
            simp only [Bool.false_eq_true, if_false] at h
            have := ih _ _ _ _ h
            simp at hl ⊢; omega

/-- the switch with a nested evaluator that agrees on the (shorter) rest -/
theorem switchF_congr (rec1 rec2 : Bool → List Tok → List Bool → Option St) (t : Tok) (r : List Tok) (st : List Bool)
    (hrec : ∀ g st R, rec1 g r st = some R → rec2 g r st = some R) (R : St)
    (h : switchF rec1 false env t r st = some R) : switchF rec2 false env t r st = some R := by
  cases t with
  | rp => simp [switchF] at h
  | feat s => simpa [switchF] using h
  | lp =>
    simp only [switchF] at h ⊢
    cases hn : rec1 false r st with
    | none => simp [hn] at h
    | some p => rw [hrec _ _ _ hn]; rw [hn] at h; exact h
  | and =>
    simp only [switchF] at h ⊢
    cases hn : rec1 true r st with
    | none => simp [hn] at h
    | some p => rw [hrec _ _ _ hn]; rw [hn] at h; exact h
  | or =>
    simp only [switchF] at h ⊢
    cases hn : rec1 false r st with
    | none => simp [hn] at h
    | some p => rw [hrec _ _ _ hn]; rw [hn] at h; exact h
  | not =>
    simp only [switchF] at h ⊢
    cases hn : rec1 true r st with
    | none => simp [hn] at h
    | some p => rw [hrec _ _ _ hn]; rw [hn] at h; exact h

/-- `length + 1` is always enough fuel: whatever any amount of fuel computes, it computes too -/
theorem fuel_enough : ∀ (f' : Nat) (f : Nat) (g : Bool) (toks : List Tok) (st : List Bool) (R : St),
    toks.length + 1 ≤ f → evalF false env f' g toks st = some R → evalF false env f g toks st = some R := by
  intro f'
  induction f' with
  | zero => intro f g toks st R _ h; simp [evalF] at h
  | succ f' ih =>
    intro f g toks st R hf h
    cases f with
    | zero => omega
    | succ f0 =>
      cases toks with
      | nil => simpa [evalF] using h
      | cons t r =>
        by_cases ht : t = .rp
        · subst ht; simpa [evalF] using h
        · rw [evalF_step env _ g t r st ht] at h ⊢
          simp only [List.length_cons] at hf
          cases hs : switchF (evalF false env f') false env t r st with
          | none => simp [hs] at h
          | some p =>
            have hl := switchF_len env _ t r st (fun g st R => evalF_len env f' g r st R) p hs
            rw [switchF_congr env _ (evalF false env f0) t r st
              (fun g st R hh => ih f0 g r st R (by omega) hh) p hs]
            rw [hs] at h
            obtain ⟨r', s'⟩ := p
            cases g with
            | true => simpa using h
            | false =>
              simp only [Bool.false_eq_true, if_false] at h ⊢
              exact ih f0 false r' s' R (by simp at hl; omega) h

/-- **the evaluator computes the RFC 7950 meaning** of every expression of the grammar -/
theorem evaluate_eq_sem (o : OrE) : evaluate false env o.toks = some (o.sem env) := by
  obtain ⟨f, hf⟩ := OrE.evals env o [] [] (Or.inl rfl)
  simp only [List.append_nil] at hf
  have := fuel_enough env f (o.toks.length + 1) false o.toks [] _ (Nat.le_refl _) hf
  simp [evaluate, this]

end YangVerif.IfFeature
