/-
  Helper lemmas for C17 (ordering of typed values, sorted lookup).
-/
import YangVerif.Model.Compare
set_option linter.unusedSimpArgs false
namespace YangVerif.Compare

/-! ### three-way comparison has the sign of the mathematical difference -/

theorem threeWayS_neg {w : Nat} (x y : BitVec w) : threeWayS x y < 0 ↔ x.toInt < y.toInt := by
  unfold threeWayS; simp only [BitVec.slt]
  by_cases h1 : x.toInt < y.toInt
  · simp [h1]
  · by_cases h2 : y.toInt < x.toInt <;> simp [h1, h2]

theorem threeWayS_pos {w : Nat} (x y : BitVec w) : 0 < threeWayS x y ↔ y.toInt < x.toInt := by
  unfold threeWayS; simp only [BitVec.slt]
  by_cases h1 : x.toInt < y.toInt
  · simp [h1]; omega
  · by_cases h2 : y.toInt < x.toInt <;> simp [h1, h2]

theorem threeWayS_zero {w : Nat} (x y : BitVec w) : threeWayS x y = 0 ↔ x = y := by
  unfold threeWayS; simp only [BitVec.slt]
  by_cases h1 : x.toInt < y.toInt
  · simp [h1]; intro h; subst h; omega
  · by_cases h2 : y.toInt < x.toInt
    · simp [h1, h2]; intro h; subst h; omega
    · simp [h1, h2]; apply BitVec.eq_of_toInt_eq; omega

theorem threeWayU_neg {w : Nat} (x y : BitVec w) : threeWayU x y < 0 ↔ x.toNat < y.toNat := by
  unfold threeWayU; simp only [BitVec.ult]
  by_cases h1 : x.toNat < y.toNat
  · simp [h1]
  · by_cases h2 : y.toNat < x.toNat <;> simp [h1, h2]

theorem threeWayU_pos {w : Nat} (x y : BitVec w) : 0 < threeWayU x y ↔ y.toNat < x.toNat := by
  unfold threeWayU; simp only [BitVec.ult]
  by_cases h1 : x.toNat < y.toNat
  · simp [h1]; omega
  · by_cases h2 : y.toNat < x.toNat <;> simp [h1, h2]

theorem threeWayU_zero {w : Nat} (x y : BitVec w) : threeWayU x y = 0 ↔ x = y := by
  unfold threeWayU; simp only [BitVec.ult]
  by_cases h1 : x.toNat < y.toNat
  · simp [h1]; intro h; subst h; omega
  · by_cases h2 : y.toNat < x.toNat
    · simp [h1, h2]; intro h; subst h; omega
    · simp [h1, h2]; apply BitVec.eq_of_toNat_eq; omega

/-! ### subtraction in a wider type is exact (Int32, Enum ids) -/

theorem subWide32_exact (x y : BitVec 32) : subWide x y = x.toInt - y.toInt := by
  unfold subWide
  have hx := BitVec.toInt_signExtend_of_le (x := x) (v := 64) (by omega)
  have hy := BitVec.toInt_signExtend_of_le (x := y) (v := 64) (by omega)
  rw [BitVec.toInt_sub, hx, hy]
  have := BitVec.toInt_lt (x := x); have := BitVec.le_toInt (x := x)
  have := BitVec.toInt_lt (x := y); have := BitVec.le_toInt (x := y)
  rw [Int.bmod_eq_of_le] <;> omega

/-! ### lexicographic order on byte strings -/

/-- strict lexicographic order, the denotation of string/binary/identity order -/
def lexLt : List Nat → List Nat → Prop
  | [], [] => False
  | [], _ :: _ => True
  | _ :: _, [] => False
  | a :: as, b :: bs => a < b ∨ (a = b ∧ lexLt as bs)

theorem lexCmp_neg : ∀ (x y : List Nat), lexCmp x y < 0 ↔ lexLt x y
  | [], [] => by simp [lexCmp, lexLt]
  | [], _ :: _ => by simp [lexCmp, lexLt]
  | _ :: _, [] => by simp [lexCmp, lexLt]
  | a :: as, b :: bs => by
    have ih := lexCmp_neg as bs
    unfold lexCmp lexLt
    by_cases h1 : a < b
    · simp [h1]
    · by_cases h2 : b < a
      · simp [h1, h2]; omega
      · have : a = b := by omega
        simp [h1, h2, this, ih]

theorem lexCmp_zero : ∀ (x y : List Nat), lexCmp x y = 0 ↔ x = y
  | [], [] => by simp [lexCmp]
  | [], _ :: _ => by simp [lexCmp]
  | _ :: _, [] => by simp [lexCmp]
  | a :: as, b :: bs => by
    have ih := lexCmp_zero as bs
    unfold lexCmp
    by_cases h1 : a < b
    · simp [h1]; omega
    · by_cases h2 : b < a
      · simp [h1, h2]; omega
      · have : a = b := by omega
        simp [h1, h2, this, ih]

theorem lexCmp_pos : ∀ (x y : List Nat), 0 < lexCmp x y ↔ lexLt y x
  | [], [] => by simp [lexCmp, lexLt]
  | [], _ :: _ => by simp [lexCmp, lexLt]
  | _ :: _, [] => by simp [lexCmp, lexLt]
  | a :: as, b :: bs => by
    have ih := lexCmp_pos as bs
    unfold lexCmp lexLt
    by_cases h1 : a < b
    · simp [h1]; omega
    · by_cases h2 : b < a
      · simp [h1, h2]
      · have : a = b := by omega
        simp [h1, h2, this, ih]

theorem lexLt_irrefl : ∀ x, ¬ lexLt x x
  | [] => by simp [lexLt]
  | a :: as => by simp [lexLt, lexLt_irrefl as]

theorem lexLt_trans : ∀ x y z, lexLt x y → lexLt y z → lexLt x z
  | [], [], _ => by simp [lexLt]
  | [], _ :: _, [] => by simp [lexLt]
  | [], _ :: _, _ :: _ => by simp [lexLt]
  | _ :: _, [], _ => by simp [lexLt]
  | _ :: _, _ :: _, [] => by simp [lexLt]
  | a :: as, b :: bs, c :: cs => by
    have ih := lexLt_trans as bs cs
    simp only [lexLt]
    rintro (h1 | ⟨h1, h1'⟩) (h2 | ⟨h2, h2'⟩)
    · left; omega
    · left; omega
    · left; omega
    · right; exact ⟨by omega, ih h1' h2'⟩

theorem lexLt_total : ∀ x y, lexLt x y ∨ x = y ∨ lexLt y x
  | [], [] => by simp
  | [], _ :: _ => by simp [lexLt]
  | _ :: _, [] => by simp [lexLt]
  | a :: as, b :: bs => by
    have ih := lexLt_total as bs
    simp only [lexLt, List.cons.injEq]
    by_cases h1 : a < b
    · left; left; exact h1
    · by_cases h2 : b < a
      · right; right; left; exact h2
      · have : a = b := by omega
        subst this
        rcases ih with h | h | h
        · left; right; exact ⟨rfl, h⟩
        · right; left; exact ⟨rfl, h⟩
        · right; right; right; exact ⟨rfl, h⟩

/-! ### an abstract "ordered comparison" and the laws it gives -/

/-- `cmp` realises the strict order `lt` -/
structure OrderedBy {α : Type} (lt : α → α → Prop) (cmp : α → α → Int) : Prop where
  neg_iff : ∀ x y, cmp x y < 0 ↔ lt x y
  zero_iff : ∀ x y, cmp x y = 0 ↔ x = y
  pos_iff : ∀ x y, 0 < cmp x y ↔ lt y x

/-- `lt` is a strict total order -/
structure StrictTotal {α : Type} (lt : α → α → Prop) : Prop where
  irrefl : ∀ x, ¬ lt x x
  trans : ∀ x y z, lt x y → lt y z → lt x z
  total : ∀ x y, lt x y ∨ x = y ∨ lt y x

theorem strictTotal_toInt {w : Nat} : StrictTotal (fun (x y : BitVec w) => x.toInt < y.toInt) where
  irrefl := fun x => by omega
  trans := fun x y z => by omega
  total := fun x y => by
    by_cases h1 : x.toInt < y.toInt
    · exact Or.inl h1
    · by_cases h2 : y.toInt < x.toInt
      · exact Or.inr (Or.inr h2)
      · exact Or.inr (Or.inl (BitVec.eq_of_toInt_eq (by omega)))

theorem strictTotal_toNat {w : Nat} : StrictTotal (fun (x y : BitVec w) => x.toNat < y.toNat) where
  irrefl := fun x => by omega
  trans := fun x y z => by omega
  total := fun x y => by
    by_cases h1 : x.toNat < y.toNat
    · exact Or.inl h1
    · by_cases h2 : y.toNat < x.toNat
      · exact Or.inr (Or.inr h2)
      · exact Or.inr (Or.inl (BitVec.eq_of_toNat_eq (by omega)))

theorem strictTotal_lex : StrictTotal lexLt := ⟨lexLt_irrefl, lexLt_trans, lexLt_total⟩

theorem strictTotal_bool : StrictTotal (fun (x y : Bool) => x = false ∧ y = true) where
  irrefl := by intro x; cases x <;> simp
  trans := by intro x y z; cases x <;> cases y <;> cases z <;> simp
  total := by intro x y; cases x <;> cases y <;> simp

theorem boolCmp_ordered : OrderedBy (fun (x y : Bool) => x = false ∧ y = true) boolCmp where
  neg_iff := by intro x y; cases x <;> cases y <;> simp [boolCmp]
  zero_iff := by intro x y; cases x <;> cases y <;> simp [boolCmp]
  pos_iff := by intro x y; cases x <;> cases y <;> simp [boolCmp]

/-! ### sort.Search returns the lower bound of a monotone predicate -/

theorem searchLoop_spec (f : Nat → Bool) (hmono : ∀ a b, a ≤ b → f a = true → f b = true) :
    ∀ (fuel i j : Nat), i ≤ j → j - i < fuel →
      (∀ k, k < i → f k = false) → (∀ k, j ≤ k → k < n → f k = true) → j ≤ n →
      let r := searchLoop f fuel i j
      i ≤ r ∧ r ≤ j ∧ (∀ k, k < r → f k = false) ∧ (∀ k, r ≤ k → k < n → f k = true) := by
  intro fuel
  induction fuel with
  | zero => intro i j _ h; omega
  | succ fuel ih =>
    intro i j hij hfuel hlo hhi hjn
    simp only [searchLoop]
    by_cases hlt : i < j
    · simp only [hlt, if_true]
      by_cases hf : f ((i + j) / 2) = true
      · simp only [hf, Bool.not_true, Bool.false_eq_true, if_false]
        have := ih i ((i + j) / 2) (by omega) (by omega) hlo
          (fun k hk hkn => hmono _ _ hk hf) (by omega)
        obtain ⟨h1, h2, h3, h4⟩ := this
        exact ⟨h1, by omega, h3, h4⟩
      · have hf' : f ((i + j) / 2) = false := by simpa using hf
        simp only [hf', Bool.not_false, if_true]
        have := ih ((i + j) / 2 + 1) j (by omega) (by omega)
          (fun k hk => by
            by_cases hk' : k < i
            · exact hlo k hk'
            · cases hfk : f k with
              | false => rfl
              | true => have := hmono k ((i + j) / 2) (by omega) hfk; simp [hf'] at this)
          hhi hjn
        obtain ⟨h1, h2, h3, h4⟩ := this
        exact ⟨by omega, h2, h3, h4⟩
    · simp only [hlt, if_false]
      have : i = j := by omega
      subst this
      exact ⟨Nat.le_refl _, Nat.le_refl _, hlo, hhi⟩

theorem sortSearch_spec (n : Nat) (f : Nat → Bool) (hmono : ∀ a b, a ≤ b → f a = true → f b = true) :
    let r := sortSearch n f
    r ≤ n ∧ (∀ k, k < r → f k = false) ∧ (∀ k, r ≤ k → k < n → f k = true) := by
  have := searchLoop_spec (n := n) f hmono (n + 1) 0 n (by omega) (by omega)
    (fun k hk => by omega) (fun k hk hkn => by omega) (by omega)
  obtain ⟨_, h2, h3, h4⟩ := this
  exact ⟨h2, h3, h4⟩


/-! ### key tuples: CompareVals is the lexicographic order of the components -/

/-- lexicographic order on tuples (lists of equal length) -/
def tupLt {α : Type} (lt : α → α → Prop) : List α → List α → Prop
  | a :: as, b :: bs => lt a b ∨ (a = b ∧ tupLt lt as bs)
  | _, _ => False

theorem compareVals_neg {α : Type} {lt : α → α → Prop} {cmp : α → α → Int}
    (h : OrderedBy lt cmp) (hs : StrictTotal lt) :
    ∀ (a b : List α), a.length = b.length → (compareVals cmp a b < 0 ↔ tupLt lt a b)
  | [], [], _ => by simp [compareVals, tupLt]
  | [], _ :: _, hl => by simp at hl
  | _ :: _, [], hl => by simp at hl
  | a :: as, b :: bs, hl => by
    have ih := compareVals_neg h hs as bs (by simpa using hl)
    simp only [compareVals, tupLt]
    by_cases h1 : cmp a b < 0
    · simp [h1, (h.neg_iff a b).1 h1]
    · by_cases h2 : cmp a b > 0
      · have hba := (h.pos_iff a b).1 h2
        have hnab : ¬ lt a b := fun hab => hs.irrefl a (hs.trans _ _ _ hab hba)
        have hne : a ≠ b := fun e => by subst e; exact hs.irrefl a hba
        simp [h1, h2, hnab, hne]
      · have h0 : cmp a b = 0 := by omega
        have hab : a = b := (h.zero_iff a b).1 h0
        subst hab
        simp [h1, h2, hs.irrefl a, ih]

theorem compareVals_pos {α : Type} {lt : α → α → Prop} {cmp : α → α → Int}
    (h : OrderedBy lt cmp) (hs : StrictTotal lt) :
    ∀ (a b : List α), a.length = b.length → (0 < compareVals cmp a b ↔ tupLt lt b a)
  | [], [], _ => by simp [compareVals, tupLt]
  | [], _ :: _, hl => by simp at hl
  | _ :: _, [], hl => by simp at hl
  | a :: as, b :: bs, hl => by
    have ih := compareVals_pos h hs as bs (by simpa using hl)
    simp only [compareVals, tupLt]
    by_cases h1 : cmp a b < 0
    · have hab := (h.neg_iff a b).1 h1
      have hnba : ¬ lt b a := fun hba => hs.irrefl a (hs.trans _ _ _ hab hba)
      have hne : b ≠ a := fun e => by subst e; exact hs.irrefl b hab
      simp [h1, hnba, hne]; omega
    · by_cases h2 : cmp a b > 0
      · simp [h1, h2, (h.pos_iff a b).1 h2]
      · have h0 : cmp a b = 0 := by omega
        have hab : a = b := (h.zero_iff a b).1 h0
        subst hab
        simp [h1, h2, hs.irrefl a, ih]

theorem equalVals_iff {α : Type} {lt : α → α → Prop} {cmp : α → α → Int}
    (h : OrderedBy lt cmp) : ∀ (a b : List α), equalVals cmp a b = true ↔ a = b
  | [], [] => by simp [equalVals]
  | [], _ :: _ => by simp [equalVals]
  | _ :: _, [] => by simp [equalVals]
  | a :: as, b :: bs => by
    have ih := equalVals_iff h as bs
    simp [equalVals, ih, h.zero_iff a b]

theorem tupLt_irrefl {α : Type} {lt : α → α → Prop} (hs : StrictTotal lt) : ∀ a : List α, ¬ tupLt lt a a
  | [] => by simp [tupLt]
  | a :: as => by simp [tupLt, hs.irrefl a, tupLt_irrefl hs as]

theorem tupLt_trans {α : Type} {lt : α → α → Prop} (hs : StrictTotal lt) :
    ∀ a b c : List α, tupLt lt a b → tupLt lt b c → tupLt lt a c
  | [], _, _ => by simp [tupLt]
  | _ :: _, [], _ => by simp [tupLt]
  | _ :: _, _ :: _, [] => by simp [tupLt]
  | a :: as, b :: bs, c :: cs => by
    have ih := tupLt_trans hs as bs cs
    simp only [tupLt]
    rintro (h1 | ⟨h1, h1'⟩) (h2 | ⟨h2, h2'⟩)
    · exact Or.inl (hs.trans _ _ _ h1 h2)
    · subst h2; exact Or.inl h1
    · subst h1; exact Or.inl h2
    · subst h1; subst h2; exact Or.inr ⟨rfl, ih h1' h2'⟩

/-- the keys of the sorted index ascend strictly (what `sort.Sort` with an ordered
    comparator leaves for pairwise different keys) -/
def StrictAsc {α : Type} (lt : α → α → Prop) (keys : List (List α)) : Prop :=
  ∀ i j, i < j → j < keys.length → tupLt lt (keys.getD i []) (keys.getD j [])

theorem sorterFind_exact {α : Type} {lt : α → α → Prop} {cmp : α → α → Int}
    (h : OrderedBy lt cmp) (hs : StrictTotal lt) (keys : List (List α)) (key : List α)
    (hlen : ∀ i, i < keys.length → (keys.getD i []).length = key.length)
    (hasc : StrictAsc lt keys) (i : Nat) :
    sorterFind cmp keys key = some i ↔ (i < keys.length ∧ keys.getD i [] = key) := by
  have hmono : ∀ a b, a ≤ b →
      (fun i => decide (compareVals cmp (keys.getD i []) key ≥ 0)) a = true →
      (fun i => decide (compareVals cmp (keys.getD i []) key ≥ 0)) b = true := by
    intro a b hab ha
    simp only [ge_iff_le, decide_eq_true_eq] at ha ⊢
    by_cases hb : b < keys.length
    · by_cases hab' : a = b
      · subst hab'; exact ha
      · have hlt := hasc a b (by omega) hb
        have hna : ¬ tupLt lt (keys.getD a []) key := by
          intro hh
          have := (compareVals_neg h hs _ _ (hlen a (by omega))).2 hh
          omega
        have hnb : ¬ tupLt lt (keys.getD b []) key := fun hh => hna (tupLt_trans hs _ _ _ hlt hh)
        have := mt (compareVals_neg h hs _ _ (hlen b hb)).1 hnb
        omega
    · have : keys.getD b [] = [] := by
        simp [List.getD_eq_getElem?_getD, List.getElem?_eq_none (Nat.le_of_not_lt hb)]
      rw [this]; simp [compareVals]
  have hspec := sortSearch_spec keys.length _ hmono
  simp only at hspec
  obtain ⟨hr, hlo, hhi⟩ := hspec
  unfold sorterFind
  simp only
  generalize hrdef : sortSearch keys.length (fun i => decide (compareVals cmp (keys.getD i []) key ≥ 0)) = r at *
  constructor
  · intro hfound
    by_cases hrl : r < keys.length
    · simp only [hrl, if_true] at hfound
      by_cases heq : equalVals cmp (keys.getD r []) key = true
      · rw [if_pos heq] at hfound
        have : r = i := by simpa using hfound
        subst this
        exact ⟨hrl, (equalVals_iff h _ _).1 heq⟩
      · rw [if_neg heq] at hfound; exact absurd hfound (by simp)
    · simp [hrl] at hfound
  · rintro ⟨hi, hkey⟩
    have hfi : decide (compareVals cmp (keys.getD i []) key ≥ 0) = true := by
      rw [hkey]
      have : ¬ compareVals cmp key key < 0 := by
        rw [compareVals_neg h hs _ _ rfl]; exact tupLt_irrefl hs key
      simp; omega
    have hri : r ≤ i := by
      apply Nat.le_of_not_lt
      intro hlt
      have := hlo i hlt
      rw [this] at hfi; simp at hfi
    have hir : i = r := by
      apply Nat.le_antisymm _ hri
      apply Nat.le_of_not_lt
      intro hlt
      have hasc' := hasc r i hlt hi
      rw [hkey] at hasc'
      have hfr := hhi r (Nat.le_refl _) (by omega)
      simp only [ge_iff_le, decide_eq_true_eq] at hfr
      have := (compareVals_neg h hs _ _ (hlen r (by omega))).2 hasc'
      omega
    subst hir
    rw [if_pos hi, if_pos ((equalVals_iff h _ _).2 hkey)]

/-- linear scan finds the first entry equal to the key -/
theorem linearFind_some {κ : Type} (eq : κ → κ → Bool) (heq : ∀ a b, eq a b = true ↔ a = b) :
    ∀ (ks : List κ) (key : κ) (base i : Nat),
      linearFind eq ks key base = some i →
      (base ≤ i ∧ i - base < ks.length ∧ ks.getD (i - base) key = key ∧ ∀ j, j < i - base → ks[j]? ≠ some key)
  | [], _, _, _ => by simp [linearFind]
  | k :: ks, key, base, i => by
    simp only [linearFind]
    by_cases hk : eq k key = true
    · simp only [hk, if_true, Option.some.injEq]
      intro hh; subst hh
      have := (heq k key).1 hk
      simp [this]
    · simp only [hk, if_false]
      intro hh
      have ih := linearFind_some eq heq ks key (base + 1) i hh
      obtain ⟨h1, h2, h3, h4⟩ := ih
      have hne : k ≠ key := fun e => hk ((heq k key).2 e)
      refine ⟨by omega, by simp; omega, ?_, ?_⟩
      · have : i - base = (i - (base + 1)) + 1 := by omega
        rw [this]; simpa using h3
      · intro j hj
        cases j with
        | zero => simpa using hne
        | succ j => simpa using h4 j (by omega)

theorem linearFind_none {κ : Type} (eq : κ → κ → Bool) (heq : ∀ a b, eq a b = true ↔ a = b) :
    ∀ (ks : List κ) (key : κ) (base : Nat), linearFind eq ks key base = none ↔ key ∉ ks
  | [], _, _ => by simp [linearFind]
  | k :: ks, key, base => by
    simp only [linearFind]
    by_cases hk : eq k key = true
    · have := (heq k key).1 hk
      rw [if_pos hk]; simp [this]
    · have hne : k ≠ key := fun e => hk ((heq k key).2 e)
      rw [if_neg hk]
      simp only [List.mem_cons, not_or]
      rw [linearFind_none eq heq ks key (base + 1)]
      constructor
      · intro h; exact ⟨fun e => hne e.symm, h⟩
      · intro h; exact h.2

end YangVerif.Compare
