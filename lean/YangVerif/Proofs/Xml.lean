/-
  Helper lemmas for C19: character data codec, render/parse of element trees (compact and
  indented), the two writers = the XML encoding of the data, XmlNode reading inverts it.
-/
import YangVerif.Model.Xml
set_option linter.unusedSimpArgs false
set_option linter.unusedVariables false
namespace YangVerif.Xml

/-! ### character data -/

theorem unescape_plain (c : Nat) (rest : Text) (h1 : c ≠ 38) (h2 : c ≠ 60) (h3 : c ≠ 13) (h4 : isXmlChar c = true) :
    unescapeText (c :: rest) = (unescapeText rest).map (c :: ·) := by
  rw [unescapeText.eq_def]
  simp [h1, h2, h3, h4]

theorem unescape_escapeChar (c : Nat) (rest : Text) (hc : isXmlChar c = true) :
    unescapeText (escapeChar c ++ rest) = (unescapeText rest).map (c :: ·) := by
  unfold escapeChar
  by_cases h34 : c = 34
  · subst h34; simp [unescapeText, refDec, decDigit, isXmlChar]
  by_cases h39 : c = 39
  · subst h39; simp [unescapeText, refDec, decDigit, isXmlChar]
  by_cases h38 : c = 38
  · subst h38; simp [unescapeText]
  by_cases h60 : c = 60
  · subst h60; simp [unescapeText]
  by_cases h62 : c = 62
  · subst h62; simp [unescapeText]
  by_cases h9 : c = 9
  · subst h9; simp [unescapeText, refHex, hexDigitVal, isXmlChar]
  by_cases h10 : c = 10
  · subst h10; simp [unescapeText, refHex, hexDigitVal, isXmlChar]
  by_cases h13 : c = 13
  · subst h13; simp [unescapeText, refHex, hexDigitVal, isXmlChar]
  simp only [beq_iff_eq, h34, h39, h38, h60, h62, h9, h10, h13, if_false, hc, if_true, List.singleton_append]
  exact unescape_plain c rest h38 h60 h13 hc

theorem unescape_escape_append (s rest : Text) (h : ∀ c ∈ s, isXmlChar c = true) :
    unescapeText (escapeText s ++ rest) = (unescapeText rest).map (s ++ ·) := by
  induction s with
  | nil => simp [escapeText]
  | cons c s ih =>
    have hc := h c (by simp)
    have hs : ∀ c' ∈ s, isXmlChar c' = true := fun c' hc' => h c' (by simp [hc'])
    have : escapeText (c :: s) ++ rest = escapeChar c ++ (escapeText s ++ rest) := by
      simp [escapeText]
    rw [this, unescape_escapeChar c _ hc, ih hs]
    cases unescapeText rest <;> simp

theorem unescape_escape (s : Text) (h : ∀ c ∈ s, isXmlChar c = true) :
    unescapeText (escapeText s) = some s := by
  have := unescape_escape_append s [] h
  simpa [unescapeText] using this

/-- nothing the escaper writes can open markup, close a CDATA section, or be altered by
    line-end normalisation -/
theorem escapeChar_safe (c x : Nat) (hx : x ∈ escapeChar c) : x ≠ 60 ∧ x ≠ 62 ∧ x ≠ 13 := by
  unfold escapeChar at hx
  by_cases h34 : c = 34
  · subst h34; simp at hx; omega
  by_cases h39 : c = 39
  · subst h39; simp at hx; omega
  by_cases h38 : c = 38
  · subst h38; simp at hx; omega
  by_cases h60 : c = 60
  · subst h60; simp at hx; omega
  by_cases h62 : c = 62
  · subst h62; simp at hx; omega
  by_cases h9 : c = 9
  · subst h9; simp at hx; omega
  by_cases h10 : c = 10
  · subst h10; simp at hx; omega
  by_cases h13 : c = 13
  · subst h13; simp at hx; omega
  simp only [beq_iff_eq, h34, h39, h38, h60, h62, h9, h10, h13, if_false] at hx
  by_cases hc : isXmlChar c = true
  · simp [hc] at hx; subst hx; exact ⟨h60, h62, h13⟩
  · simp [hc] at hx; subst hx; omega

theorem escapeText_safe (s : Text) (x : Nat) (hx : x ∈ escapeText s) : x ≠ 60 ∧ x ≠ 62 ∧ x ≠ 13 := by
  unfold escapeText at hx
  rw [List.mem_flatMap] at hx
  obtain ⟨c, _, hc⟩ := hx
  exact escapeChar_safe c x hc

/-! ### render / parse, compact -/

mutual
  /-- number of tokens of the compact serialisation -/
  def esize : Elem → Nat
    | .mk _ t kids => 2 + (textToks t).length + ksize kids
  def ksize : List Elem → Nat
    | [] => 0
    | e :: r => esize e + ksize r
end

theorem esize_ge (e : Elem) : 2 ≤ esize e := by
  cases e; simp [esize]; omega

theorem decl_getD (inh : String) (q : QName) : (decl inh q).getD inh = q.ns := by
  unfold decl; by_cases h : q.ns = inh <;> simp [h]

theorem parseContent_text (f : Nat) (ns : String) (t : Text) (rest : List Tok) :
    parseContent (f + 1) ns (.text t :: rest) = (parseContent f ns rest).map fun (t', ks, r) => (t ++ t', ks, r) := by
  rw [parseContent.eq_def]

theorem parseContent_ws (f : Nat) (ns : String) (d : Nat) (rest : List Tok) :
    parseContent (f + 1) ns (.ws d :: rest) = (parseContent f ns rest).map fun (t', ks, r) => (indent d ++ t', ks, r) := by
  rw [parseContent.eq_def]

theorem parseContent_close (f : Nat) (ns : String) (l : String) (rest : List Tok) :
    parseContent (f + 1) ns (.close l :: rest) = some ([], [], .close l :: rest) := by
  rw [parseContent.eq_def]

theorem parseContent_open (f : Nat) (ns : String) (l : String) (d : Option String) (rest : List Tok) :
    parseContent (f + 1) ns (.open l d :: rest) =
      match parseElem f ns (.open l d :: rest) with
      | some (e, r) => (parseContent f ns r).map fun (t, ks, r') => (t, e :: ks, r')
      | none => none := by
  rw [parseContent.eq_def]; rfl

theorem parseElem_open (f : Nat) (inh : String) (loc : String) (d : Option String) (rest : List Tok) :
    parseElem (f + 1) inh (.open loc d :: rest) =
      match parseContent f (d.getD inh) rest with
      | some (t, kids, .close loc' :: r) => if loc = loc' then some (.mk ⟨loc, d.getD inh⟩ t kids, r) else none
      | _ => none := by
  rw [parseElem.eq_def]; rfl

mutual
  theorem parse_render (e : Elem) (inh : String) (rest : List Tok) (f : Nat) (hf : esize e ≤ f) :
      parseElem f inh (render inh e ++ rest) = some (e, rest) := by
    match e with
    | .mk q t kids =>
      simp only [esize] at hf
      obtain ⟨f1, rfl⟩ : ∃ f1, f = f1 + 1 := ⟨f - 1, by omega⟩
      simp only [render, List.cons_append, List.append_assoc, List.singleton_append]
      rw [parseElem_open, decl_getD]
      by_cases ht : t = []
      · subst ht
        simp only [textToks, if_true, List.nil_append, List.length_nil] at hf ⊢
        rw [parse_kids kids q.ns rest q.loc f1 (by omega)]
        simp
      · simp only [textToks, ht, if_false, List.cons_append, List.nil_append, List.length_cons, List.length_nil] at hf ⊢
        obtain ⟨f2, rfl⟩ : ∃ f2, f1 = f2 + 1 := ⟨f1 - 1, by omega⟩
        rw [parseContent_text, parse_kids kids q.ns rest q.loc f2 (by omega)]
        simp
  theorem parse_kids (kids : List Elem) (ns : String) (rest : List Tok) (loc : String) (f : Nat)
      (hf : ksize kids + 1 ≤ f) :
      parseContent f ns (renderKids ns kids ++ .close loc :: rest) = some ([], kids, .close loc :: rest) := by
    match kids with
    | [] =>
      obtain ⟨f1, rfl⟩ : ∃ f1, f = f1 + 1 := ⟨f - 1, by omega⟩
      simp only [renderKids, List.nil_append]
      rw [parseContent_close]
    | e :: r =>
      simp only [ksize] at hf
      obtain ⟨f1, rfl⟩ : ∃ f1, f = f1 + 1 := ⟨f - 1, by omega⟩
      have he := esize_ge e
      have h1 := parse_render e ns (renderKids ns r ++ .close loc :: rest) f1 (by omega)
      have h2 := parse_kids r ns rest loc f1 (by omega)
      simp only [renderKids, List.append_assoc]
      match e, h1 with
      | .mk q t ks, h1 =>
        simp only [render, List.cons_append, List.append_assoc] at h1 ⊢
        rw [parseContent_open, h1]
        simp only [h2, Option.map_some]
end

mutual
  theorem render_length (e : Elem) (inh : String) : (render inh e).length = esize e := by
    match e with
    | .mk q t kids =>
      simp only [render, esize, List.length_cons, List.length_append, List.length_nil, renderKids_length kids q.ns]
      omega
  theorem renderKids_length (ks : List Elem) (inh : String) : (renderKids inh ks).length = ksize ks := by
    match ks with
    | [] => simp [renderKids, ksize]
    | e :: r => simp [renderKids, ksize, render_length e inh, renderKids_length r inh]
end

theorem parseDoc_render (e : Elem) : parseDoc (render "" e) = some e := by
  unfold parseDoc
  have := parse_render e "" [] ((render "" e).length + 1) (by rw [render_length]; omega)
  simp only [List.append_nil] at this
  rw [this]

/-! ### render / parse, indented: the reader sees the same tree, decorated with the indentation
    as character data of every element that has child elements -/

def junk (d : Nat) : List Elem → Text
  | [] => indent d
  | _ :: r => indent (d + 1) ++ junk d r

mutual
  /-- `w = true`: what a reader gets from the indented serialisation; `w = false`: the identity -/
  def deco (w : Bool) (d : Nat) : Elem → Elem
    | .mk q t [] => .mk q t []
    | .mk q t (k :: ks) => .mk q (if w then t ++ junk d (k :: ks) else t) (decoKids w (d + 1) (k :: ks))
  def decoKids (w : Bool) (d : Nat) : List Elem → List Elem
    | [] => []
    | e :: r => deco w d e :: decoKids w d r
end

mutual
  def esizeP : Elem → Nat
    | .mk _ t [] => 2 + (textToks t).length
    | .mk _ t (k :: ks) => 3 + (textToks t).length + ksizeP (k :: ks)
  def ksizeP : List Elem → Nat
    | [] => 0
    | e :: r => 1 + esizeP e + ksizeP r
end

theorem esizeP_ge (e : Elem) : 2 ≤ esizeP e := by
  match e with
  | .mk _ t [] => simp [esizeP]
  | .mk _ t (k :: ks) => simp [esizeP]; omega

mutual
  theorem parse_renderP (e : Elem) (d : Nat) (inh : String) (rest : List Tok) (f : Nat) (hf : esizeP e ≤ f) :
      parseElem f inh (renderP d inh e ++ rest) = some (deco true d e, rest) := by
    match e with
    | .mk q t [] =>
      simp only [esizeP] at hf
      obtain ⟨f1, rfl⟩ : ∃ f1, f = f1 + 1 := ⟨f - 1, by omega⟩
      simp only [renderP, deco, List.cons_append, List.append_assoc, List.singleton_append]
      rw [parseElem_open, decl_getD]
      by_cases ht : t = []
      · subst ht
        simp only [textToks, if_true, List.nil_append, List.length_nil] at hf ⊢
        obtain ⟨f2, rfl⟩ : ∃ f2, f1 = f2 + 1 := ⟨f1 - 1, by omega⟩
        rw [parseContent_close]; simp
      · simp only [textToks, ht, if_false, List.cons_append, List.nil_append, List.length_cons, List.length_nil] at hf ⊢
        obtain ⟨f2, rfl⟩ : ∃ f2, f1 = f2 + 1 := ⟨f1 - 1, by omega⟩
        obtain ⟨f3, rfl⟩ : ∃ f3, f2 = f3 + 1 := ⟨f2 - 1, by omega⟩
        rw [parseContent_text, parseContent_close]; simp
    | .mk q t (k :: ks) =>
      simp only [esizeP] at hf
      obtain ⟨f1, rfl⟩ : ∃ f1, f = f1 + 1 := ⟨f - 1, by omega⟩
      simp only [renderP, deco, List.cons_append, List.append_assoc, List.singleton_append, if_true]
      rw [parseElem_open, decl_getD]
      by_cases ht : t = []
      · subst ht
        simp only [textToks, if_true, List.nil_append, List.length_nil] at hf ⊢
        rw [parse_kidsP (k :: ks) d q.ns rest q.loc f1 (by omega)]
        simp
      · simp only [textToks, ht, if_false, List.cons_append, List.nil_append, List.length_cons, List.length_nil] at hf ⊢
        obtain ⟨f2, rfl⟩ : ∃ f2, f1 = f2 + 1 := ⟨f1 - 1, by omega⟩
        rw [parseContent_text, parse_kidsP (k :: ks) d q.ns rest q.loc f2 (by omega)]
        simp
  theorem parse_kidsP (kids : List Elem) (d : Nat) (ns : String) (rest : List Tok) (loc : String) (f : Nat)
      (hf : ksizeP kids + 2 ≤ f) :
      parseContent f ns (renderKidsP (d + 1) ns kids ++ .ws d :: .close loc :: rest) =
        some (junk d kids, decoKids true (d + 1) kids, .close loc :: rest) := by
    match kids with
    | [] =>
      obtain ⟨f1, rfl⟩ : ∃ f1, f = f1 + 1 := ⟨f - 1, by omega⟩
      obtain ⟨f2, rfl⟩ : ∃ f2, f1 = f2 + 1 := ⟨f1 - 1, by omega⟩
      simp only [renderKidsP, List.nil_append, junk, decoKids]
      rw [parseContent_ws, parseContent_close]; simp
    | e :: r =>
      simp only [ksizeP] at hf
      have he := esizeP_ge e
      obtain ⟨f1, rfl⟩ : ∃ f1, f = f1 + 1 := ⟨f - 1, by omega⟩
      obtain ⟨f2, rfl⟩ : ∃ f2, f1 = f2 + 1 := ⟨f1 - 1, by omega⟩
      have h1 := parse_renderP e (d + 1) ns (renderKidsP (d + 1) ns r ++ .ws d :: .close loc :: rest) f2 (by omega)
      have h2 := parse_kidsP r d ns rest loc f2 (by omega)
      simp only [renderKidsP, List.cons_append, List.append_assoc, junk, decoKids]
      rw [parseContent_ws]
      match e, h1 with
      | .mk q t [], h1 =>
        simp only [renderP, List.cons_append, List.append_assoc] at h1 ⊢
        rw [parseContent_open, h1]
        simp only [h2, Option.map_some]
      | .mk q t (k :: ks), h1 =>
        simp only [renderP, List.cons_append, List.append_assoc] at h1 ⊢
        rw [parseContent_open, h1]
        simp only [h2, Option.map_some]
end

mutual
  theorem renderP_length (e : Elem) (d : Nat) (inh : String) : (renderP d inh e).length = esizeP e := by
    match e with
    | .mk q t [] => simp [renderP, esizeP]; omega
    | .mk q t (k :: ks) =>
      simp only [renderP, esizeP, List.length_cons, List.length_append, List.length_nil, renderKidsP_length (k :: ks) (d + 1) q.ns]
      omega
  theorem renderKidsP_length (ks : List Elem) (d : Nat) (inh : String) : (renderKidsP d inh ks).length = ksizeP ks := by
    match ks with
    | [] => simp [renderKidsP, ksizeP]
    | e :: r => simp [renderKidsP, ksizeP, renderP_length e d inh, renderKidsP_length r d inh]; omega
end

theorem parseDoc_renderP (e : Elem) : parseDoc (renderP 0 "" e) = some (deco true 0 e) := by
  unfold parseDoc
  have := parse_renderP e 0 "" [] ((renderP 0 "" e).length + 1) (by rw [renderP_length]; omega)
  simp only [List.append_nil] at this
  rw [this]

mutual
  theorem deco_false (e : Elem) (d : Nat) : deco false d e = e := by
    match e with
    | .mk q t [] => simp [deco]
    | .mk q t (k :: ks) => simp [deco, decoKids_false (k :: ks) (d + 1)]
  theorem decoKids_false (ks : List Elem) (d : Nat) : decoKids false d ks = ks := by
    match ks with
    | [] => simp [decoKids]
    | e :: r => simp [decoKids, deco_false e d, decoKids_false r d]
end

theorem decoKids_eq_map (w : Bool) (d : Nat) (ks : List Elem) : decoKids w d ks = ks.map (deco w d) := by
  induction ks with
  | nil => simp [decoKids]
  | cons e r ih => simp [decoKids, ih]

theorem deco_name (w : Bool) (d : Nat) (e : Elem) : (deco w d e).name = e.name := by
  match e with
  | .mk q t [] => simp [deco, Elem.name]
  | .mk q t (k :: ks) => simp [deco, Elem.name]

theorem deco_kids (w : Bool) (d : Nat) (e : Elem) : (deco w d e).kids = decoKids w (d + 1) e.kids := by
  match e with
  | .mk q t [] => simp [deco, Elem.kids, decoKids]
  | .mk q t (k :: ks) => simp [deco, Elem.kids]

theorem deco_leaf (w : Bool) (d : Nat) (q : QName) (t : Text) : deco w d (.mk q t []) = .mk q t [] := by
  simp [deco]

/-! ### the reader -/

theorem isFor_same (q : QName) (e : Elem) (h : e.name = q) : isFor q e = true := by
  unfold isFor; subst h; simp

theorem isFor_other (q : QName) (e : Elem) (h : e.name ≠ q) (hns : e.name.ns ≠ "") : isFor q e = false := by
  unfold isFor
  cases hq : e.name with
  | mk l n =>
    cases q with
    | mk l' n' =>
      rw [hq] at h hns
      simp only [ne_eq, QName.mk.injEq, not_and] at h
      simp only at hns
      simp only [Bool.and_eq_false_iff, Bool.or_eq_false_iff, beq_eq_false_iff_ne, ne_eq]
      by_cases hl : l = l'
      · right; exact ⟨hns, h hl⟩
      · left; exact hl

theorem isFor_deco (q : QName) (w : Bool) (d : Nat) (e : Elem) : isFor q (deco w d e) = isFor q e := by
  unfold isFor; rw [deco_name]

theorem filter_map_deco (q : QName) (w : Bool) (d : Nat) (es : List Elem) :
    (es.map (deco w d)).filter (isFor q) = (es.filter (isFor q)).map (deco w d) := by
  induction es with
  | nil => simp
  | cons e r ih =>
    simp only [List.map_cons, List.filter_cons, isFor_deco]
    by_cases h : isFor q e = true <;> simp [h, ih]

theorem toXMLRows_name (q : QName) (ks : List XS) (rows : List (List XD)) :
    ∀ e ∈ toXMLRows q ks rows, e.name = q := by
  induction rows with
  | nil => simp [toXMLRows]
  | cons b r ih =>
    intro e he
    simp only [toXMLRows, List.mem_cons] at he
    rcases he with rfl | he
    · rfl
    · exact ih e he

theorem toXML_name (s : XS) (d : XD) : ∀ e ∈ toXML s d, e.name = s.name := by
  intro e he
  match s, d with
  | .leaf q, .leaf (some t) =>
    simp only [toXML, List.mem_singleton] at he; subst he; rfl
  | .leafList q, .leafList vs =>
    simp only [toXML, List.mem_map] at he
    obtain ⟨t, _, rfl⟩ := he; rfl
  | .cont q ks, .cont (some b) =>
    simp only [toXML, List.mem_singleton] at he; subst he; rfl
  | .list q ks, .list rows => exact toXMLRows_name q ks rows e (by simpa [toXML] using he)
  | .leaf _, .leaf none | .leaf _, .leafList _ | .leaf _, .cont _ | .leaf _, .list _ => simp [toXML] at he
  | .leafList _, .leaf _ | .leafList _, .cont _ | .leafList _, .list _ => simp [toXML] at he
  | .cont _ _, .cont none | .cont _ _, .leaf _ | .cont _ _, .leafList _ | .cont _ _, .list _ => simp [toXML] at he
  | .list _ _, .leaf _ | .list _ _, .leafList _ | .list _ _, .cont _ => simp [toXML] at he

theorem leafList_texts (q : QName) (w : Bool) (dep : Nat) (vs : List Text) :
    (((vs.map fun t => Elem.mk q t []).map (deco w dep)).map Elem.text) = vs := by
  induction vs with
  | nil => rfl
  | cons v r ih => simp only [List.map_cons, deco, Elem.text, ih]

theorem mk_kids (q : QName) (t : Text) (ks : List Elem) : (Elem.mk q t ks).kids = ks := rfl

theorem okNode_ns (s : XS) (h : okNode s = true) : s.name.ns ≠ "" := by
  cases s <;> simp [okNode] at h <;> simp [XS.name] <;> first | exact h | exact h.1

theorem filter_self (s : XS) (d : XD) : (toXML s d).filter (isFor s.name) = toXML s d := by
  rw [List.filter_eq_self]
  intro e he
  exact isFor_same _ _ (toXML_name s d e he)

theorem filter_other (s : XS) (d : XD) (q : QName) (hq : s.name ≠ q) (hns : s.name.ns ≠ "") :
    (toXML s d).filter (isFor q) = [] := by
  rw [List.filter_eq_nil_iff]
  intro e he
  have hn := toXML_name s d e he
  have := isFor_other q e (by rw [hn]; exact hq) (by rw [hn]; exact hns)
  simp [this]

theorem okBody_cons (s : XS) (ss : List XS) (h : okBody (s :: ss) = true) :
    okNode s = true ∧ (∀ s' ∈ ss, s'.name ≠ s.name) ∧ okBody ss = true := by
  simp only [okBody, Bool.and_eq_true, List.all_eq_true, bne_iff_ne, ne_eq] at h
  exact ⟨h.1.1, h.1.2, h.2⟩

theorem okBody_mem (ss : List XS) (h : okBody ss = true) : ∀ s ∈ ss, okNode s = true := by
  induction ss with
  | nil => simp
  | cons s r ih =>
    obtain ⟨h1, _, h3⟩ := okBody_cons s r h
    intro s' hs'
    simp only [List.mem_cons] at hs'
    rcases hs' with rfl | hs'
    · exact h1
    · exact ih h3 s' hs'

theorem filter_body_none (q : QName) : ∀ (ss : List XS) (ds : List XD),
    (∀ s ∈ ss, s.name ≠ q) → (∀ s ∈ ss, okNode s = true) → (toXMLBody ss ds).filter (isFor q) = []
  | [], _, _, _ => by simp [toXMLBody]
  | _ :: _, [], _, _ => by simp [toXMLBody]
  | s :: ss, d :: ds, hne, hok => by
    simp only [toXMLBody, List.filter_append]
    rw [filter_other s d q (hne s (by simp)) (okNode_ns s (hok s (by simp))),
      filter_body_none q ss ds (fun s' h => hne s' (by simp [h])) (fun s' h => hok s' (by simp [h]))]
    rfl

/-- the reader looks at the parent's elements only through the per-name subsequences -/
theorem readBody_congr (ss : List XS) (es es' : List Elem)
    (h : ∀ s ∈ ss, es.filter (isFor s.name) = es'.filter (isFor s.name)) : readBody ss es = readBody ss es' := by
  induction ss with
  | nil => simp [readBody]
  | cons s r ih =>
    simp only [readBody]
    rw [h s (by simp), ih (fun s' hs' => h s' (by simp [hs']))]

theorem read_rows (q : QName) (ks : List XS) (w : Bool) (dep : Nat)
    (hbody : ∀ b dep', confBody ks b = true → readBody ks ((toXMLBody ks b).map (deco w dep')) = b) :
    ∀ rows, confRows ks rows = true →
      ((toXMLRows q ks rows).map (deco w dep)).map (fun e => readBody ks e.kids) = rows := by
  intro rows
  induction rows with
  | nil => simp [toXMLRows]
  | cons b r ih =>
    intro hc
    simp only [confRows, Bool.and_eq_true] at hc
    simp only [toXMLRows, List.map_cons, deco_kids, decoKids_eq_map, mk_kids]
    rw [hbody b (dep + 1) hc.1, ih hc.2]

mutual
  theorem read_node (s : XS) (d : XD) (w : Bool) (dep : Nat) (hok : okNode s = true) (hc : conf s d = true) :
      fromMatches s ((toXML s d).map (deco w dep)) = d := by
    match s, d with
    | .leaf q, .leaf none => simp [toXML, fromMatches]
    | .leaf q, .leaf (some t) => simp [toXML, fromMatches, deco, Elem.text]
    | .leafList q, .leafList vs =>
      simp only [toXML, fromMatches, leafList_texts]
    | .cont q ks, .cont none => simp [toXML, fromMatches]
    | .cont q ks, .cont (some b) =>
      simp only [conf] at hc
      simp only [okNode, Bool.and_eq_true] at hok
      simp only [toXML, List.map_cons, List.map_nil, fromMatches, deco_kids, decoKids_eq_map, mk_kids]
      rw [read_body ks b w (dep + 1) hok.2 hc]
    | .list q ks, .list rows =>
      simp only [conf] at hc
      simp only [okNode, Bool.and_eq_true] at hok
      simp only [toXML, fromMatches]
      rw [read_rows q ks w dep (fun b dep' hb => read_body ks b w dep' hok.2 hb) rows hc]
    | .leaf _, .leafList _ | .leaf _, .cont _ | .leaf _, .list _ => simp [conf] at hc
    | .leafList _, .leaf _ | .leafList _, .cont _ | .leafList _, .list _ => simp [conf] at hc
    | .cont _ _, .leaf _ | .cont _ _, .leafList _ | .cont _ _, .list _ => simp [conf] at hc
    | .list _ _, .leaf _ | .list _ _, .leafList _ | .list _ _, .cont _ => simp [conf] at hc
  theorem read_body (ss : List XS) (ds : List XD) (w : Bool) (dep : Nat) (hok : okBody ss = true)
      (hc : confBody ss ds = true) : readBody ss ((toXMLBody ss ds).map (deco w dep)) = ds := by
    match ss, ds with
    | [], [] => simp [readBody]
    | [], _ :: _ => simp [confBody] at hc
    | _ :: _, [] => simp [confBody] at hc
    | s :: ss, d :: ds =>
      simp only [confBody, Bool.and_eq_true] at hc
      obtain ⟨hs, hne, hss⟩ := okBody_cons s ss hok
      have hmem := okBody_mem ss hss
      simp only [readBody, toXMLBody, List.map_append]
      have h1 : (List.map (deco w dep) (toXML s d) ++ List.map (deco w dep) (toXMLBody ss ds)).filter (isFor s.name)
          = (toXML s d).map (deco w dep) := by
        rw [List.filter_append, filter_map_deco, filter_map_deco, filter_self,
          filter_body_none s.name ss ds hne hmem]
        simp
      have h2 : readBody ss (List.map (deco w dep) (toXML s d) ++ List.map (deco w dep) (toXMLBody ss ds))
          = readBody ss (List.map (deco w dep) (toXMLBody ss ds)) := by
        apply readBody_congr
        intro s' hs'
        rw [List.filter_append, filter_map_deco,
          filter_other s d s'.name (fun h => hne s' hs' h.symm) (okNode_ns s hs)]
        simp
      rw [h1, h2, read_node s d w dep hs hc.1, read_body ss ds w dep hss hc.2]
end

/-! ### the writers -/

theorem buildAll_append (st : Builder) (a b : List Ev) :
    buildAll st (a ++ b) = (buildAll st a).bind fun st' => buildAll st' b := by
  induction a generalizing st with
  | nil => simp [buildAll]
  | cons e r ih =>
    simp only [List.cons_append, buildAll]
    cases build st e with
    | none => simp
    | some st' => simp [ih]

theorem buildAll_cons (st : Builder) (e : Ev) (r : List Ev) :
    buildAll st (e :: r) = (build st e).bind fun st' => buildAll st' r := by
  simp only [buildAll]
  cases build st e <;> simp

theorem toXMLRows_append_nil (q : QName) (ks : List XS) : toXMLRows q ks [] = [] := by simp [toXMLRows]

mutual
  /-- XMLWtr2: after the callbacks of a node, the element under construction has gained exactly its encoding -/
  theorem build_node (s : XS) (d : XD) (pns : String) (q0 : QName) (acc : List Elem) (st : Builder) :
      buildAll ((q0, acc) :: st) (nodeEvents pns s d) = some ((q0, acc ++ toXML s d) :: st) := by
    match s, d with
    | .leaf q, .leaf (some t) => simp [nodeEvents, toXML, buildAll, build]
    | .leafList q, .leafList (v :: vs) => simp [nodeEvents, toXML, buildAll, build]
    | .leafList q, .leafList [] => simp [nodeEvents, toXML, buildAll]
    | .cont q ks, .cont (some b) =>
      simp only [nodeEvents, toXML]
      rw [buildAll_append, buildAll_cons]
      simp only [build, Option.bind_some]
      rw [build_body ks b q.ns q [] ((q0, acc) :: st)]
      simp [buildAll, build]
    | .list q ks, .list (r :: rs) =>
      simp only [nodeEvents, toXML]
      rw [buildAll_append, buildAll_cons]
      simp only [build, Option.bind_some]
      rw [build_rows q ks (r :: rs) pns q0 acc st]
      simp [buildAll, build]
    | .list q ks, .list [] => simp [nodeEvents, toXML, toXMLRows, buildAll]
    | .leaf _, .leaf none | .leaf _, .leafList _ | .leaf _, .cont _ | .leaf _, .list _ => simp [nodeEvents, toXML, buildAll]
    | .leafList _, .leaf _ | .leafList _, .cont _ | .leafList _, .list _ => simp [nodeEvents, toXML, buildAll]
    | .cont _ _, .cont none | .cont _ _, .leaf _ | .cont _ _, .leafList _ | .cont _ _, .list _ => simp [nodeEvents, toXML, buildAll]
    | .list _ _, .leaf _ | .list _ _, .leafList _ | .list _ _, .cont _ => simp [nodeEvents, toXML, buildAll]
  theorem build_body (ss : List XS) (ds : List XD) (pns : String) (q0 : QName) (acc : List Elem) (st : Builder) :
      buildAll ((q0, acc) :: st) (events pns ss ds) = some ((q0, acc ++ toXMLBody ss ds) :: st) := by
    match ss, ds with
    | [], _ => simp [events, toXMLBody, buildAll]
    | _ :: _, [] => simp [events, toXMLBody, buildAll]
    | s :: ss, d :: ds =>
      simp only [events, toXMLBody]
      rw [buildAll_append, build_node s d pns q0 acc st]
      simp only [Option.bind_some]
      rw [build_body ss ds pns q0 (acc ++ toXML s d) st, List.append_assoc]
  theorem build_rows (q : QName) (ks : List XS) (rows : List (List XD)) (pns : String) (q0 : QName)
      (acc : List Elem) (st : Builder) :
      buildAll ((q0, acc) :: st) (rowEvents pns q ks rows) = some ((q0, acc ++ toXMLRows q ks rows) :: st) := by
    match rows with
    | [] => simp [rowEvents, toXMLRows, buildAll]
    | b :: r =>
      simp only [rowEvents, toXMLRows]
      rw [buildAll_append, buildAll_cons]
      simp only [build, Option.bind_some]
      rw [build_body ks b q.ns q [] ((q0, acc) :: st)]
      simp only [Option.bind_some, List.nil_append]
      rw [buildAll_cons]
      simp only [build, Option.bind_some]
      rw [build_rows q ks r pns q0 (acc ++ [Elem.mk q [] (toXMLBody ks b)]) st]
      simp
end

theorem renderKids_append (inh : String) (a b : List Elem) :
    renderKids inh (a ++ b) = renderKids inh a ++ renderKids inh b := by
  induction a with
  | nil => simp [renderKids]
  | cons e r ih => simp [renderKids, ih]

theorem streamAll_append (a b : List Ev) : streamAll (a ++ b) = streamAll a ++ streamAll b := by
  simp [streamAll]

theorem streamAll_cons (e : Ev) (r : List Ev) : streamAll (e :: r) = stream e ++ streamAll r := by
  simp [streamAll]

theorem stream_leafList (q : QName) (pns : String) (vs : List Text) :
    (vs.flatMap fun t => Tok.open q.loc (decl pns q) :: textToks t ++ [Tok.close q.loc]) =
      renderKids pns (vs.map fun t => Elem.mk q t []) := by
  induction vs with
  | nil => simp [renderKids]
  | cons v r ih => simpa [renderKids, render] using ih

mutual
  /-- XMLWtr: the tokens streamed for a node are the compact serialisation of its encoding -/
  theorem stream_node (s : XS) (d : XD) (pns : String) :
      streamAll (nodeEvents pns s d) = renderKids pns (toXML s d) := by
    match s, d with
    | .leaf q, .leaf (some t) => simp [nodeEvents, toXML, streamAll, stream, renderKids, render]
    | .leafList q, .leafList (v :: vs) =>
      simp only [nodeEvents, toXML, streamAll, List.flatMap_cons, List.flatMap_nil, List.append_nil, stream]
      exact stream_leafList q pns (v :: vs)
    | .leafList q, .leafList [] => simp [nodeEvents, toXML, streamAll, renderKids]
    | .cont q ks, .cont (some b) =>
      simp only [nodeEvents, toXML, streamAll_cons, streamAll_append, stream, renderKids, render, textToks,
        stream_body ks b q.ns]
      simp [streamAll]
    | .list q ks, .list (r :: rs) =>
      simp only [nodeEvents, toXML, streamAll_cons, streamAll_append, stream, stream_rows q ks (r :: rs) pns]
      simp [streamAll]
    | .list q ks, .list [] => simp [nodeEvents, toXML, toXMLRows, streamAll, renderKids]
    | .leaf _, .leaf none | .leaf _, .leafList _ | .leaf _, .cont _ | .leaf _, .list _ => simp [nodeEvents, toXML, streamAll, renderKids]
    | .leafList _, .leaf _ | .leafList _, .cont _ | .leafList _, .list _ => simp [nodeEvents, toXML, streamAll, renderKids]
    | .cont _ _, .cont none | .cont _ _, .leaf _ | .cont _ _, .leafList _ | .cont _ _, .list _ => simp [nodeEvents, toXML, streamAll, renderKids]
    | .list _ _, .leaf _ | .list _ _, .leafList _ | .list _ _, .cont _ => simp [nodeEvents, toXML, streamAll, renderKids]
  theorem stream_body (ss : List XS) (ds : List XD) (pns : String) :
      streamAll (events pns ss ds) = renderKids pns (toXMLBody ss ds) := by
    match ss, ds with
    | [], _ => simp [events, toXMLBody, streamAll, renderKids]
    | _ :: _, [] => simp [events, toXMLBody, streamAll, renderKids]
    | s :: ss, d :: ds =>
      simp only [events, toXMLBody, streamAll_append, renderKids_append, stream_node s d pns, stream_body ss ds pns]
  theorem stream_rows (q : QName) (ks : List XS) (rows : List (List XD)) (pns : String) :
      streamAll (rowEvents pns q ks rows) = renderKids pns (toXMLRows q ks rows) := by
    match rows with
    | [] => simp [rowEvents, toXMLRows, streamAll, renderKids]
    | b :: r =>
      simp only [rowEvents, toXMLRows, streamAll_cons, streamAll_append, stream, renderKids, render, textToks,
        stream_body ks b q.ns, stream_rows q ks r pns]
      simp
end

end YangVerif.Xml
