import YangVerif.Model.Conc
namespace YangVerif.Conc

theorem ok_parts (t : Table) (h : t.ok = true) :
    t.fns.length = t.count ∧ (∀ e ∈ t.entries, e < t.count) ∧
    (∀ e ∈ t.fns, (∀ g ∈ e.1, g < t.count) ∧ e.2 = false) := by
  unfold Table.ok at h
  simp only [Bool.and_eq_true, beq_iff_eq, List.all_eq_true, decide_eq_true_eq, Bool.not_eq_true'] at h
  refine ⟨h.1.1, h.1.2, ?_⟩
  intro e he
  have := h.2 e he
  exact ⟨this.1, this.2⟩

theorem lookup_mem (t : Table) (f : Nat) (h : f < t.fns.length) : ∃ e, t.fns[f]? = some e ∧ e ∈ t.fns := by
  refine ⟨t.fns[f], ?_, List.getElem_mem h⟩
  exact List.getElem?_eq_getElem h

/-- every reachable function is inside the table -/
theorem reach_lt (t : Table) (h : t.ok = true) {f : Nat} (r : Reach t f) : f < t.count := by
  obtain ⟨hl, he, hf⟩ := ok_parts t h
  induction r with
  | entry hm => exact he _ hm
  | @call f g _ hg ih =>
    obtain ⟨e, hq, hm⟩ := lookup_mem t f (by omega)
    have : g ∈ e.1 := by
      unfold Table.callees at hg; rw [hq] at hg; exact hg
    exact (hf e hm).1 g this

/-- no reachable function writes -/
theorem reach_no_write (t : Table) (h : t.ok = true) {f : Nat} (r : Reach t f) :
    t.writes f = false := by
  obtain ⟨hl, _, hf⟩ := ok_parts t h
  have hlt := reach_lt t h r
  obtain ⟨e, hq, hm⟩ := lookup_mem t f (by omega)
  unfold Table.writes; rw [hq]; exact (hf e hm).2

variable {δ : Type}

/-- a step of a thread whose stack holds reachable functions: the memory stays, no write is made, the stack
    still holds reachable functions -/
theorem step_good (t : Table) (p : Prog δ) (hok : t.ok = true) (hc : Conforms t p)
    (mem : Mem) (th : Thread δ) (hs : ∀ f ∈ th.stack, Reach t f) :
    (stepThread p mem th).2.1 = mem ∧
    (∀ l w, (stepThread p mem th).2.2 = some (l, w) → w = false) ∧
    (∀ f ∈ (stepThread p mem th).1.stack, Reach t f) := by
  unfold stepThread
  cases hstk : th.stack with
  | nil => simp only; refine ⟨by simp, ?_, ?_⟩ <;> intros <;> simp_all
  | cons f rest =>
    have hf : Reach t f := hs f (by rw [hstk]; exact List.mem_cons_self)
    have hrest : ∀ g ∈ rest, Reach t g := fun g hg => hs g (by rw [hstk]; exact List.mem_cons_of_mem _ hg)
    have hcf := hc th.d f
    simp only
    cases hp : p th.d f with
    | rd l k =>
      refine ⟨rfl, ?_, ?_⟩
      · intro l' w hq; simp only [Option.some.injEq, Prod.mk.injEq] at hq; exact hq.2.symm
      · intro g hg; simp only [List.mem_cons] at hg
        cases hg with
        | inl h => rw [h]; exact hf
        | inr h => exact hrest g h
    | wr l v d =>
      rw [hp] at hcf
      have := reach_no_write t hok hf
      simp only at hcf
      rw [this] at hcf; exact absurd hcf (by decide)
    | tau d =>
      refine ⟨rfl, ?_, ?_⟩
      · intro l' w hq; simp at hq
      · intro g hg; simp only [List.mem_cons] at hg
        cases hg with
        | inl h => rw [h]; exact hf
        | inr h => exact hrest g h
    | call g d =>
      rw [hp] at hcf
      simp only at hcf
      refine ⟨rfl, ?_, ?_⟩
      · intro l' w hq; simp at hq
      · intro x hx; simp only [List.mem_cons] at hx
        cases hx with
        | inl h => rw [h]; exact Reach.call hf hcf
        | inr h =>
          cases h with
          | inl h => rw [h]; exact hf
          | inr h => exact hrest x h
    | ret d =>
      refine ⟨rfl, ?_, ?_⟩
      · intro l' w hq; simp at hq
      · intro g hg; exact hrest g hg

theorem sysStep_good (t : Table) (p : Prog δ) (hok : t.ok = true) (hc : Conforms t p)
    (i : Nat) (s : Sys δ) (hg : GoodStacks t s) :
    (sysStep p i s).1.mem = s.mem ∧ (∀ e ∈ (sysStep p i s).2, e.isWrite = false) ∧ GoodStacks t (sysStep p i s).1 := by
  unfold sysStep
  cases hq : s.ths[i]? with
  | none => simp only; exact ⟨by simp, by intro e he; simp at he, hg⟩
  | some th =>
    have hmem : th ∈ s.ths := List.mem_of_getElem? hq
    have := step_good t p hok hc s.mem th (hg th hmem)
    simp only
    refine ⟨this.1, ?_, ?_⟩
    · intro e he
      cases hev : (stepThread p s.mem th).2.2 with
      | none => rw [hev] at he; simp [evOf] at he
      | some lw =>
        obtain ⟨l, w⟩ := lw
        rw [hev] at he; simp only [evOf, List.mem_singleton] at he
        rw [he]; exact this.2.1 l w hev
    · intro th' hth' f hf
      have := List.mem_or_eq_of_mem_set hth'
      cases this with
      | inl h => exact hg th' h f hf
      | inr h => rw [h] at hf; exact this.2.2 f hf

theorem run_good (t : Table) (p : Prog δ) (hok : t.ok = true) (hc : Conforms t p)
    (sched : List Nat) (s : Sys δ) (hg : GoodStacks t s) :
    (run p sched s).1.mem = s.mem ∧ (∀ e ∈ (run p sched s).2, e.isWrite = false) ∧ GoodStacks t (run p sched s).1 := by
  induction sched generalizing s with
  | nil => exact ⟨rfl, by intro e he; simp [run] at he, hg⟩
  | cons i rest ih =>
    have h1 := sysStep_good t p hok hc i s hg
    have h2 := ih (sysStep p i s).1 h1.2.2
    simp only [run]
    refine ⟨by rw [h2.1, h1.1], ?_, h2.2.2⟩
    intro e he
    simp only [List.mem_append] at he
    cases he with
    | inl h => exact h1.2.1 e h
    | inr h => exact h2.2.1 e h

/-- what thread `i` looks like after thread `j` stepped -/
theorem sysStep_thread (p : Prog δ) (i j : Nat) (s : Sys δ) :
    (sysStep p j s).1.ths[i]? =
      if j = i then (s.ths[i]?).map (fun th => (stepThread p s.mem th).1) else s.ths[i]? := by
  unfold sysStep
  by_cases hji : j = i
  · subst hji
    cases hq : s.ths[j]? with
    | none => simp [hq]
    | some th =>
      simp only [if_true, Option.map_some]
      have hlt : j < s.ths.length := by
        cases Nat.lt_or_ge j s.ths.length with
        | inl h => exact h
        | inr h => rw [List.getElem?_eq_none h] at hq; cases hq
      simp [hlt]
  · cases hq : s.ths[j]? with
    | none => simp [hji]
    | some th => simp [hji]

def countOf (i : Nat) : List Nat → Nat
  | [] => 0
  | j :: rest => (if j = i then 1 else 0) + countOf i rest

/-- a thread ends where it ends alone, after as many steps as the schedule gave it -/
theorem run_thread (t : Table) (p : Prog δ) (hok : t.ok = true) (hc : Conforms t p)
    (sched : List Nat) (s : Sys δ) (hg : GoodStacks t s) (i : Nat) :
    (run p sched s).1.ths[i]? = (s.ths[i]?).map (alone p s.mem (countOf i sched)) := by
  induction sched generalizing s with
  | nil => simp [run, countOf, alone]
  | cons j rest ih =>
    have h1 := sysStep_good t p hok hc j s hg
    have h2 := ih (sysStep p j s).1 h1.2.2
    simp only [run]
    rw [h2, h1.1, sysStep_thread]
    by_cases hji : j = i
    · simp only [hji, if_true, countOf, Option.map_map]
      congr 1
      funext th
      simp only [Function.comp]
      rw [Nat.add_comm]; rfl
    · simp only [hji, if_false, countOf, Nat.zero_add]

end YangVerif.Conc
