/-
  Helper lemmas for C16.
-/
import YangVerif.Model.XPath
set_option linter.unusedSimpArgs false
set_option linter.unusedVariables false
namespace YangVerif.XP

theorem holds_ne (o : Ordering) : holds .ne o = !holds .eq o := by cases o <;> rfl
theorem holds_le (o : Ordering) : holds .le o = (holds .lt o || holds .eq o) := by cases o <;> rfl
theorem holds_ge (o : Ordering) : holds .ge o = (holds .gt o || holds .eq o) := by cases o <;> rfl
theorem holds_gt (o : Ordering) : holds .gt o = !holds .le o := by cases o <;> rfl
theorem holds_lt (o : Ordering) : holds .lt o = !holds .ge o := by cases o <;> rfl

theorem int_compare (a b : Int) : compare a b = if a < b then .lt else if a = b then .eq else .gt := by
  simp [compare, compareOfLessAndEq]
theorem compare_int_eq (a b : Int) : (compare a b == .eq) = decide (a = b) := by
  rw [int_compare]; by_cases h1 : a < b <;> by_cases h2 : a = b <;> simp [h1, h2] <;> omega
theorem compare_int_lt (a b : Int) : (compare a b == .lt) = decide (a < b) := by
  rw [int_compare]; by_cases h1 : a < b <;> by_cases h2 : a = b <;> simp [h1, h2]
theorem compare_int_gt (a b : Int) : (compare a b == .gt) = decide (b < a) := by
  rw [int_compare]; by_cases h1 : a < b <;> by_cases h2 : a = b <;> simp [h1, h2] <;> omega

mutual
  /-- every condition of every node that is there holds -/
  def allHoldNode (ss : List S) (ds : List D) : S → D → Bool
    | .leaf _ cs, .leaf (some _) => condsHold cs ss ds ss ds
    | .cont _ cs ks, .cont (some b) => condsHold cs ks b ss ds && allHoldKids ks b ks b
    | .list _ cs ks, .list rows => rows.all fun r => condsHold cs ks r ss ds && allHoldKids ks r ks r
    | _, _ => true
  def allHoldKids (ss : List S) (ds : List D) : List S → List D → Bool
    | s :: ss', d :: ds' => allHoldNode ss ds s d && allHoldKids ss ds ss' ds'
    | _, _ => true
end

theorem filter_map_id_of_all {α : Type} (p : α → Bool) (f : α → α) (l : List α)
    (h : ∀ x ∈ l, p x = true ∧ f x = x) : (l.filter p).map f = l := by
  induction l with
  | nil => rfl
  | cons x r ih =>
    have hx := h x (by simp)
    have hr : ∀ y ∈ r, p y = true ∧ f y = y := fun y hy => h y (by simp [hy])
    simp [List.filter_cons, hx.1, hx.2, ih hr]

mutual
  theorem read_id_node (ss : List S) (ds : List D) (s : S) (d : D) (h : allHoldNode ss ds s d = true) :
      readNode ss ds s d = d := by
    match s, d with
    | .leaf n cs, .leaf (some v) =>
      simp only [allHoldNode] at h
      simp [readNode, h]
    | .leaf n cs, .leaf none =>
      simp only [readNode]; split <;> rfl
    | .cont n cs ks, .cont (some b) =>
      simp only [allHoldNode, Bool.and_eq_true] at h
      simp only [readNode, h.1, if_true, readBody]
      rw [read_id_kids ks b ks b h.2]
    | .list n cs ks, .list rows =>
      simp only [allHoldNode, List.all_eq_true, Bool.and_eq_true] at h
      simp only [readNode]
      congr 1
      apply filter_map_id_of_all
      intro r hr
      refine ⟨(h r hr).1, ?_⟩
      simp only [readBody]
      exact read_id_kids ks r ks r (h r hr).2
    | .cont _ _ _, .cont none => simp [readNode]
    | .leaf _ _, .cont _ | .leaf _ _, .list _ => simp [readNode]
    | .cont _ _ _, .leaf _ | .cont _ _ _, .list _ => simp [readNode]
    | .list _ _ _, .leaf _ | .list _ _ _, .cont _ => simp [readNode]
  theorem read_id_kids (ss : List S) (ds : List D) (ss' : List S) (ds' : List D)
      (h : allHoldKids ss ds ss' ds' = true) : readKids ss ds ss' ds' = ds' := by
    match ss', ds' with
    | [], _ => simp [readKids]
    | _ :: _, [] => simp [readKids]
    | s :: ss', d :: ds' =>
      simp only [allHoldKids, Bool.and_eq_true] at h
      simp only [readKids]
      rw [read_id_node ss ds s d h.1, read_id_kids ss ds ss' ds' h.2]
end

end YangVerif.XP
