/-
  Helper lemmas for C15/C04: string escaping round trip, writer = render, reader ∘ render = id.
-/
import YangVerif.Model.Json
set_option linter.unusedSimpArgs false
set_option linter.unusedVariables false
namespace YangVerif.Json

/-! ### strings -/

theorem unhexLow_hexLow (n : Nat) (h : n < 16) : unhexLow (hexLow n) = some n := by
  unfold hexLow unhexLow
  by_cases h10 : n < 10
  · simp [h10]; omega
  · simp [h10]
    have h1 : ¬ (48 ≤ 87 + n ∧ 87 + n ≤ 57) := by omega
    have h2 : (97 ≤ 87 + n ∧ 87 + n ≤ 102) := by omega
    simp [h1, h2]

theorem unescape_raw (c : Nat) (rest : Scalars) (h1 : c ≠ 92) (h2 : c ≠ 34) (h3 : 32 ≤ c) :
    unescape (c :: rest) = (unescape rest).map (c :: ·) := by
  rw [unescape.eq_def]
  have : ¬ c < 32 := by omega
  simp [h1, h2, this]

theorem unescape_u (h1 h2 h3 h4 : Nat) (r : Scalars) :
    unescape (92 :: 117 :: h1 :: h2 :: h3 :: h4 :: r) =
      match unhexLow h1, unhexLow h2, unhexLow h3, unhexLow h4, unescape r with
      | some a, some b, some c', some d, some r' => some ((((a * 16 + b) * 16 + c') * 16 + d) :: r')
      | _, _, _, _, _ => none := by
  rw [unescape.eq_def]; simp; rfl

theorem unescape_esc (e v : Nat) (r : Scalars) (he : e ≠ 117) (hv : escVal e = some v) :
    unescape (92 :: e :: r) = (unescape r).map (v :: ·) := by
  rw [unescape.eq_def]
  simp only [beq_self_eq_true, if_true]
  cases r with
  | nil => simp [he, hv, unescape]
  | cons a r1 =>
    cases r1 with
    | nil => simp [he, hv]; cases unescape [a] <;> simp
    | cons b r2 =>
      cases r2 with
      | nil => simp [he, hv]; cases unescape [a, b] <;> simp
      | cons c' r3 =>
        cases r3 with
        | nil => simp [he, hv]; cases unescape [a, b, c'] <;> simp
        | cons d r4 => simp [he, hv]; cases unescape (a :: b :: c' :: d :: r4) <;> simp

theorem unescape_escapeScalar (c : Nat) (rest : Scalars) :
    unescape (escapeScalar c ++ rest) = (unescape rest).map (c :: ·) := by
  unfold escapeScalar
  by_cases hlt : c < 128
  · simp only [hlt, if_true]
    by_cases hs : htmlSafe c = true
    · simp only [hs, if_true, List.singleton_append]
      unfold htmlSafe at hs; simp at hs
      exact unescape_raw c rest (by omega) (by omega) (by omega)
    · simp only [hs, Bool.false_eq_true, if_false]
      by_cases hq : (c == 92 || c == 34) = true
      · simp only [hq, if_true, List.cons_append, List.nil_append]
        simp at hq
        rcases hq with rfl | rfl
        · exact unescape_esc 92 92 rest (by omega) (by decide)
        · exact unescape_esc 34 34 rest (by omega) (by decide)
      · simp only [hq, Bool.false_eq_true, if_false]
        by_cases h10 : (c == 10) = true
        · simp at h10; subst h10; simp; exact unescape_esc 110 10 rest (by omega) (by decide)
        · simp only [h10, Bool.false_eq_true, if_false]
          by_cases h13 : (c == 13) = true
          · simp at h13; subst h13; simp; exact unescape_esc 114 13 rest (by omega) (by decide)
          · simp only [h13, Bool.false_eq_true, if_false]
            by_cases h9 : (c == 9) = true
            · simp at h9; subst h9; simp; exact unescape_esc 116 9 rest (by omega) (by decide)
            · simp only [h9, Bool.false_eq_true, if_false, List.cons_append, List.nil_append]
              rw [unescape_u]
              have e0 : unhexLow 48 = some 0 := by decide
              rw [e0, unhexLow_hexLow (c / 16) (by omega), unhexLow_hexLow (c % 16) (by omega)]
              have : c / 16 * 16 + c % 16 = c := by omega
              cases unescape rest <;> simp [this]
  · simp only [hlt, if_false]
    by_cases hls : (c == 0x2028 || c == 0x2029) = true
    · simp only [hls, if_true, List.cons_append, List.nil_append]
      rw [unescape_u]
      have e2 : unhexLow 50 = some 2 := by decide
      have e0 : unhexLow 48 = some 0 := by decide
      rw [e2, e0, unhexLow_hexLow (c % 16) (by omega)]
      simp at hls
      have : ((2 * 16 + 0) * 16 + 2) * 16 + c % 16 = c := by rcases hls with rfl | rfl <;> decide
      cases unescape rest <;> simp [this]
    · simp only [hls, Bool.false_eq_true, if_false, List.singleton_append]
      exact unescape_raw c rest (by omega) (by omega) (by omega)

/-- **every string decodes to the stored text** -/
theorem unescape_escape (s : Scalars) : unescape (escape s) = some s := by
  induction s with
  | nil => simp [escape, unescape]
  | cons c r ih =>
    unfold escape at ih ⊢
    rw [List.flatMap_cons, unescape_escapeScalar, ih]; rfl


/-! ### the streaming writer produces the rendering of the intended value -/

theorem feedAll_append : ∀ (a b : List Ev) (st : WState),
    feedAll st (a ++ b) = (feedAll st a).bind fun p => (feedAll p.2 b).map fun q => (p.1 ++ q.1, q.2)
  | [], b, st => by
    simp only [List.nil_append, feedAll, Option.bind_some]
    cases feedAll st b with
    | none => rfl
    | some q => simp
  | e :: r, b, st => by
    simp only [List.cons_append, feedAll]
    cases hf : feed st e with
    | none => rfl
    | some p =>
      obtain ⟨t1, st1⟩ := p
      simp only
      rw [feedAll_append r b st1]
      cases feedAll st1 r with
      | none => rfl
      | some q =>
        obtain ⟨t2, st2⟩ := q
        simp only [Option.bind_some]
        cases feedAll st2 b with
        | none => rfl
        | some w => simp [List.append_assoc]

/-- tokens for the members of one object, given whether something was written before them -/
def mtoks (f : Bool) (ms : List (String × JVal)) : List Tok :=
  if ms.isEmpty then [] else delim f ++ renderMembers ms

def itoks (f : Bool) (vs : List JVal) : List Tok :=
  if vs.isEmpty then [] else delim f ++ renderItems vs

theorem mtoks_cons (f : Bool) (n : String) (v : JVal) (r : List (String × JVal)) :
    mtoks f ((n, v) :: r) = delim f ++ .name n :: .colon :: render v ++ mtoks false r := by
  cases r with
  | nil => simp [mtoks, renderMembers]
  | cons m r' => obtain ⟨n', v'⟩ := m; simp [mtoks, renderMembers, delim]

theorem itoks_cons (f : Bool) (v : JVal) (r : List JVal) :
    itoks f (v :: r) = delim f ++ render v ++ itoks false r := by
  cases r with
  | nil => simp [itoks, renderItems]
  | cons w r' => simp [itoks, renderItems, delim]

theorem render_obj_mtoks (ms : List (String × JVal)) : render (.obj ms) = .lbrace :: mtoks true ms ++ [.rbrace] := by
  cases ms <;> simp [render, mtoks, delim, renderMembers]

theorem render_arr_itoks (vs : List JVal) : render (.arr vs) = .lbrack :: itoks true vs ++ [.rbrack] := by
  cases vs <;> simp [render, itoks, delim, renderItems]

mutual
  theorem feedAll_events : ∀ (ms : List Member) (f : Bool) (st : WState),
      feedAll (f :: st) (events ms) = some (mtoks f (toJSON ms), (f && ms.isEmpty) :: st)
    | [], f, st => by simp [events, feedAll, mtoks, toJSON]
    | .leaf n v :: r, f, st => by
      simp only [events, feedAll, feed, toJSON]
      rw [feedAll_events r false st]
      simp [mtoks_cons, List.append_assoc]
    | .cont n b :: r, f, st => by
      have e : events (.cont n b :: r) = [.childCont n] ++ (events b ++ (.endCont :: events r)) := by simp [events]
      rw [e, feedAll_append]
      simp only [feedAll, feed, Option.bind_some, Option.map_some, toJSON]
      rw [feedAll_append, feedAll_events b true (false :: st)]
      simp only [Option.bind_some, Option.map_some, feedAll, feed]
      rw [feedAll_events r false st]
      simp only [Option.map_some, mtoks_cons, render_obj_mtoks, List.append_assoc, List.cons_append, List.nil_append,
        List.isEmpty_cons, Bool.and_false, Option.some.injEq, Prod.mk.injEq, and_true, Bool.false_and, true_and]
    | .list n rows :: r, f, st => by
      have e : events (.list n rows :: r) = [.childList n] ++ (rowEvents rows ++ (.endList :: events r)) := by simp [events]
      rw [e, feedAll_append]
      simp only [feedAll, feed, Option.bind_some, Option.map_some, toJSON]
      rw [feedAll_append, feedAll_rows rows true (false :: st)]
      simp only [Option.bind_some, Option.map_some, feedAll, feed]
      rw [feedAll_events r false st]
      simp only [Option.map_some, mtoks_cons, render_arr_itoks, List.append_assoc, List.cons_append, List.nil_append,
        List.isEmpty_cons, Bool.and_false, Option.some.injEq, Prod.mk.injEq, and_true, Bool.false_and, true_and]
  theorem feedAll_rows : ∀ (rows : List (List Member)) (f : Bool) (st : WState),
      feedAll (f :: st) (rowEvents rows) = some (itoks f (rowsJSON rows), (f && rows.isEmpty) :: st)
    | [], f, st => by simp [rowEvents, feedAll, itoks, rowsJSON]
    | row :: r, f, st => by
      have e : rowEvents (row :: r) = [.next] ++ (events row ++ (.endCont :: rowEvents r)) := by simp [rowEvents]
      rw [e, feedAll_append]
      simp only [feedAll, feed, Option.bind_some, Option.map_some, rowsJSON]
      rw [feedAll_append, feedAll_events row true (false :: st)]
      simp only [Option.bind_some, Option.map_some, feedAll, feed]
      rw [feedAll_rows r false st]
      simp only [Option.map_some, itoks_cons, render_obj_mtoks, List.append_assoc, List.cons_append, List.nil_append,
        List.isEmpty_cons, Bool.and_false, Option.some.injEq, Prod.mk.injEq, and_true, Bool.false_and, true_and]
end

/-- **writer = render**: the bytes streamed while the editor inserts into the writer are the
    rendering of the intended JSON value (token level) -/
theorem writeDoc_eq_render (ms : List Member) : writeDoc ms = some (render (.obj (toJSON ms))) := by
  unfold writeDoc
  rw [feedAll_events ms true []]
  simp [render_obj_mtoks]


/-! ### the reader gets back exactly the value that was rendered -/

/-- a rendered value starts with a token that opens a value -/
theorem render_head (v : JVal) : ∃ t tl, render v = t :: tl ∧ t ≠ .rbrack ∧ t ≠ .rbrace := by
  cases v with
  | str s => exact ⟨_, _, rfl, by simp, by simp⟩
  | num t => exact ⟨_, _, rfl, by simp, by simp⟩
  | lit t => exact ⟨_, _, rfl, by simp, by simp⟩
  | arr items => exact ⟨.lbrack, renderItems items ++ [.rbrack], by simp [render], by simp, by simp⟩
  | obj ms => exact ⟨.lbrace, renderMembers ms ++ [.rbrace], by simp [render], by simp, by simp⟩

mutual
  theorem parseVal_render : ∀ (v : JVal) (rest : List Tok) (f : Nat), (render v).length < f →
      parseVal f (render v ++ rest) = some (v, rest)
    | .str s, rest, f + 1, _ => by simp [render, parseVal]
    | .num t, rest, f + 1, _ => by simp [render, parseVal]
    | .lit t, rest, f + 1, _ => by simp [render, parseVal]
    | .str _, _, 0, h => by simp at h
    | .num _, _, 0, h => by simp at h
    | .lit _, _, 0, h => by simp at h
    | .arr _, _, 0, h => by simp at h
    | .obj _, _, 0, h => by simp at h
    | .arr [], rest, f + 1, _ => by simp [render, renderItems, parseVal]
    | .arr (v :: r), rest, f + 1, h => by
      obtain ⟨t, tl, ht, hne, _⟩ := render_head v
      have hi := parseItems_render v r rest f (by simp [render] at h; omega)
      have hshape : ∃ t' tl', renderItems (v :: r) = t' :: tl' ∧ t' ≠ .rbrack := by
        cases r with
        | nil => exact ⟨t, tl, by simp [renderItems, ht], hne⟩
        | cons w r' => exact ⟨t, tl ++ .comma :: renderItems (w :: r'), by simp [renderItems, ht], hne⟩
      obtain ⟨t', tl', hs, hne'⟩ := hshape
      simp only [render, List.cons_append, List.append_assoc, List.singleton_append]
      rw [hs] at hi ⊢
      simp only [List.cons_append] at hi ⊢
      rw [parseVal]
      · simp [hi]
      · intro r'' heq; simp at heq; exact hne' heq.1
    | .obj [], rest, f + 1, _ => by simp [render, renderMembers, parseVal]
    | .obj ((n, v) :: r), rest, f + 1, h => by
      have hm := parseMembers_render n v r rest f (by simp [render] at h; omega)
      have hshape : ∃ tl', renderMembers ((n, v) :: r) = .name n :: tl' := by
        cases r with
        | nil => exact ⟨.colon :: render v, by simp [renderMembers]⟩
        | cons m r' => obtain ⟨n', v'⟩ := m; exact ⟨.colon :: (render v ++ .comma :: renderMembers ((n', v') :: r')), by simp [renderMembers]⟩
      obtain ⟨tl', hs⟩ := hshape
      simp only [render, List.cons_append, List.append_assoc, List.singleton_append]
      rw [hs] at hm ⊢
      simp only [List.cons_append] at hm ⊢
      rw [parseVal]
      · simp [hm]
      · intro r'' heq; simp at heq
  theorem parseItems_render : ∀ (v : JVal) (r : List JVal) (rest : List Tok) (f : Nat),
      (renderItems (v :: r)).length + 1 < f →
      parseItems f (renderItems (v :: r) ++ .rbrack :: rest) = some (v :: r, rest)
    | _, _, _, 0, h => by omega
    | v, [], rest, f + 1, h => by
      simp only [renderItems] at h ⊢
      rw [parseItems, parseVal_render v (.rbrack :: rest) f (by omega)]
    | v, w :: r, rest, f + 1, h => by
      simp only [renderItems, List.length_append, List.length_cons] at h
      simp only [renderItems, List.append_assoc, List.cons_append]
      rw [parseItems, parseVal_render v _ f (by omega)]
      simp only
      rw [parseItems_render w r rest f (by omega)]
      rfl
  theorem parseMembers_render : ∀ (n : String) (v : JVal) (r : List (String × JVal)) (rest : List Tok) (f : Nat),
      (renderMembers ((n, v) :: r)).length + 1 < f →
      parseMembers f (renderMembers ((n, v) :: r) ++ .rbrace :: rest) = some ((n, v) :: r, rest)
    | _, _, _, _, 0, h => by omega
    | n, v, [], rest, f + 1, h => by
      simp only [renderMembers, List.length_cons] at h
      simp only [renderMembers, List.cons_append]
      rw [parseMembers, parseVal_render v (.rbrace :: rest) f (by omega)]
    | n, v, (n', v') :: r, rest, f + 1, h => by
      simp only [renderMembers, List.length_cons, List.length_append] at h
      simp only [renderMembers, List.cons_append, List.append_assoc]
      rw [parseMembers, parseVal_render v _ f (by omega)]
      simp only
      rw [parseMembers_render n' v' r rest f (by omega)]
      rfl
end

/-- **exactly one well-formed value that decodes to the intended one** -/
theorem parseDoc_render (v : JVal) : parseDoc (render v) = some v := by
  unfold parseDoc
  have := parseVal_render v [] ((render v).length + 1) (by omega)
  simp only [List.append_nil] at this
  rw [this]

end YangVerif.Json
