/-
  Helper lemmas for C07: the path-expression parser computes the meaning of the grammar; the
  matcher is the prefix relation; projections.
-/
import YangVerif.Model.Query
set_option linter.unusedSimpArgs false
set_option linter.unusedVariables false
namespace YangVerif.Query

/-! ### the parser, token by token -/

theorem parsex_seg (f depth : Nat) (acc cur : List Path) (s : String) (r : List PTok) :
    parsex (f + 1) depth acc cur (.seg s :: r) = parsex f depth acc (addSegment cur s) r := by
  rw [parsex.eq_def]
theorem parsex_slash (f depth : Nat) (acc cur : List Path) (r : List PTok) :
    parsex (f + 1) depth acc cur (.slash :: r) = parsex f depth acc cur r := by
  rw [parsex.eq_def]
theorem parsex_semi (f depth : Nat) (acc cur : List Path) (r : List PTok) :
    parsex (f + 1) depth acc cur (.semi :: r) = parsex f depth (acc ++ cur) [] r := by
  rw [parsex.eq_def]
theorem parsex_rp (f depth : Nat) (acc cur : List Path) (r : List PTok) :
    parsex (f + 1) depth acc cur (.rp :: r) = if depth = 0 then none else some (acc ++ cur, r) := by
  rw [parsex.eq_def]
theorem parsex_nil (f depth : Nat) (acc cur : List Path) :
    parsex (f + 1) depth acc cur [] = if depth = 0 then some (acc ++ cur, []) else none := by
  rw [parsex.eq_def]
theorem parsex_lp (f depth : Nat) (acc cur : List Path) (r : List PTok) :
    parsex (f + 1) depth acc cur (.lp :: r) =
      match parsex f (depth + 1) [] [] r with
      | some (sub, r') => parsex f depth acc (expandPaths cur sub) r'
      | none => none := by
  rw [parsex.eq_def]; rfl

/-- more fuel never changes an answer -/
theorem parsex_mono (f : Nat) : ∀ (depth : Nat) (acc cur : List Path) (toks : List PTok) (res : List Path × List PTok),
    parsex f depth acc cur toks = some res → parsex (f + 1) depth acc cur toks = some res := by
  induction f with
  | zero => intro depth acc cur toks res h; simp [parsex] at h
  | succ f ih =>
    intro depth acc cur toks res h
    cases toks with
    | nil => rw [parsex_nil] at h ⊢; exact h
    | cons t r =>
      cases t with
      | seg s => rw [parsex_seg] at h ⊢; exact ih _ _ _ _ _ h
      | slash => rw [parsex_slash] at h ⊢; exact ih _ _ _ _ _ h
      | semi => rw [parsex_semi] at h ⊢; exact ih _ _ _ _ _ h
      | rp => rw [parsex_rp] at h ⊢; exact h
      | lp =>
        rw [parsex_lp] at h ⊢
        cases hin : parsex f (depth + 1) [] [] r with
        | none => rw [hin] at h; cases h
        | some p =>
          obtain ⟨sub, r'⟩ := p
          rw [hin] at h
          rw [ih _ _ _ _ _ hin]
          exact ih _ _ _ _ _ h

theorem parsex_mono_add (k f : Nat) (depth : Nat) (acc cur : List Path) (toks : List PTok) (res : List Path × List PTok)
    (h : parsex f depth acc cur toks = some res) : parsex (f + k) depth acc cur toks = some res := by
  induction k with
  | zero => exact h
  | succ k ih => exact parsex_mono _ _ _ _ _ _ ih

/-! ### what the parser's state becomes: the three list operations folded over the grammar -/

mutual
  def stepAtom (cur : List Path) : Atom → List Path
    | .seg s => addSegment cur s
    | .group alts => expandPaths cur (altsResult [] [] alts)
  def stepTerm (cur : List Path) : List Atom → List Path
    | [] => cur
    | a :: r => stepTerm (stepAtom cur a) r
  /-- e.paths when the closing parenthesis or the end is reached -/
  def altsResult (acc cur : List Path) : List (List Atom) → List Path
    | [] => acc ++ cur
    | [t] => acc ++ stepTerm cur t
    | t :: u :: r => altsResult (acc ++ stepTerm cur t) [] (u :: r)
end

mutual
  theorem parse_atom (a : Atom) (f depth : Nat) (acc cur : List Path) (rest : List PTok) (res : List Path × List PTok)
      (h : parsex f depth acc (stepAtom cur a) rest = some res) :
      parsex (f + (renderAtom a).length) depth acc cur (renderAtom a ++ rest) = some res := by
    match a with
    | .seg s =>
      simp only [renderAtom, List.length_singleton, List.singleton_append]
      rw [parsex_seg]; exact h
    | .group alts =>
      simp only [renderAtom, List.length_cons, List.length_append, List.length_singleton, List.cons_append, List.append_assoc,
        List.singleton_append, List.length_nil, List.nil_append, Nat.zero_add]
      have e : f + ((renderAlts alts).length + 1 + 1) = (f + (renderAlts alts).length + 1) + 1 := by omega
      rw [e, parsex_lp]
      have hin := parse_alts alts (depth + 1) [] [] (.rp :: rest) rest f
        (fun acc' cur' g => by rw [parsex_rp]; simp)
      have e2 : (renderAlts alts).length + 1 + f = f + (renderAlts alts).length + 1 := by omega
      rw [e2] at hin
      rw [hin]
      simp only [stepAtom] at h
      have := parsex_mono_add ((renderAlts alts).length + 1) f depth acc _ rest res h
      rw [show f + ((renderAlts alts).length + 1) = f + (renderAlts alts).length + 1 by omega] at this
      exact this
  theorem parse_term (t : List Atom) (f depth : Nat) (acc cur : List Path) (rest : List PTok) (res : List Path × List PTok)
      (h : parsex f depth acc (stepTerm cur t) rest = some res) :
      parsex (f + (renderTerm t).length) depth acc cur (renderTerm t ++ rest) = some res := by
    match t with
    | [] => simpa [renderTerm, stepTerm] using h
    | [a] =>
      simp only [renderTerm]
      exact parse_atom a f depth acc cur rest res (by simpa [stepTerm] using h)
    | a :: b :: r =>
      simp only [renderTerm, List.length_append, List.length_cons, List.append_assoc, List.cons_append]
      have h1 := parse_term (b :: r) f depth acc (stepAtom cur a) rest res (by simpa [stepTerm] using h)
      have h2 : parsex (f + (renderTerm (b :: r)).length + 1) depth acc (stepAtom cur a) (.slash :: (renderTerm (b :: r) ++ rest)) = some res := by
        rw [parsex_slash]; exact h1
      have := parse_atom a _ depth acc cur _ res h2
      rw [show f + ((renderAtom a).length + ((renderTerm (b :: r)).length + 1)) = f + (renderTerm (b :: r)).length + 1 + (renderAtom a).length by omega]
      exact this
  /-- alternatives up to a terminator `tail` at which the parser returns e.paths -/
  theorem parse_alts (alts : List (List Atom)) (depth : Nat) (acc cur : List Path) (tail rest : List PTok) (k : Nat)
      (hterm : ∀ (acc' cur' : List Path) (g : Nat), parsex (g + 1) depth acc' cur' tail = some (acc' ++ cur', rest)) :
      parsex ((renderAlts alts).length + 1 + k) depth acc cur (renderAlts alts ++ tail) = some (altsResult acc cur alts, rest) := by
    match alts with
    | [] =>
      simp only [renderAlts, List.length_nil, List.nil_append, altsResult]
      rw [show 0 + 1 + k = k + 1 by omega]
      exact hterm acc cur k
    | [t] =>
      simp only [renderAlts, altsResult]
      have := parse_term t (k + 1) depth acc cur tail _ (hterm acc (stepTerm cur t) k)
      rw [show (renderTerm t).length + 1 + k = k + 1 + (renderTerm t).length by omega]
      exact this
    | t :: u :: r =>
      simp only [renderAlts, altsResult, List.length_append, List.length_cons, List.append_assoc, List.cons_append]
      have h1 := parse_alts (u :: r) depth (acc ++ stepTerm cur t) [] tail rest k hterm
      have h2 : parsex ((renderAlts (u :: r)).length + 1 + k + 1) depth acc (stepTerm cur t) (.semi :: (renderAlts (u :: r) ++ tail))
          = some (altsResult (acc ++ stepTerm cur t) [] (u :: r), rest) := by
        rw [parsex_semi]; exact h1
      have := parse_term t _ depth acc cur _ _ h2
      rw [show (renderTerm t).length + ((renderAlts (u :: r)).length + 1) + 1 + k = (renderAlts (u :: r)).length + 1 + k + 1 + (renderTerm t).length by omega]
      exact this
end

theorem parseExpr_render (e : List (List Atom)) : parseExpr (renderAlts e) = some (altsResult [] [] e) := by
  unfold parseExpr
  have := parse_alts e 0 [] [] [] [] 0 (fun acc' cur' g => by rw [parsex_nil]; simp)
  simp only [List.append_nil, Nat.add_zero] at this
  rw [this]

/-! ### the folded state is the meaning of the grammar -/

theorem product_nil_left (b : List Path) : product [] b = [] := by simp [product]
theorem product_nil_right (a : List Path) : product a [] = [] := by simp [product]

theorem product_assoc (a b c : List Path) : product (product a b) c = product a (product b c) := by
  simp only [product, List.flatMap_assoc, List.map_flatMap, List.flatMap_map, List.map_map]
  congr 1; funext d; congr 1; funext s; congr 1; funext t; simp [List.append_assoc]

theorem product_isEmpty (a b : List Path) : (product a b).isEmpty = (a.isEmpty || b.isEmpty) := by
  cases a with
  | nil => simp [product]
  | cons x xs =>
    cases b with
    | nil => simp [product]
    | cons y ys => simp [product]

theorem combine_nil_right (a : List Path) : combine a [] = a := by
  unfold combine; cases a <;> simp

theorem combine_nil_left (b : List Path) : combine [] b = b := by
  unfold combine; simp

theorem combine_isEmpty (a b : List Path) : (combine a b).isEmpty = (a.isEmpty && b.isEmpty) := by
  unfold combine
  cases a with
  | nil => simp
  | cons x xs =>
    cases b with
    | nil => simp
    | cons y ys => simp [product_isEmpty]

theorem combine_assoc (a b c : List Path) : combine (combine a b) c = combine a (combine b c) := by
  cases a with
  | nil => simp [combine_nil_left]
  | cons x xs =>
    cases b with
    | nil => simp [combine_nil_left, combine_nil_right]
    | cons y ys =>
      cases c with
      | nil => simp [combine_nil_right]
      | cons z zs =>
        have h1 : combine (x :: xs) (y :: ys) = product (x :: xs) (y :: ys) := by simp [combine]
        have h2 : combine (y :: ys) (z :: zs) = product (y :: ys) (z :: zs) := by simp [combine]
        have e1 : (product (x :: xs) (y :: ys)).isEmpty = false := by rw [product_isEmpty]; simp
        have e2 : (product (y :: ys) (z :: zs)).isEmpty = false := by rw [product_isEmpty]; simp
        rw [h1, h2]
        unfold combine
        simp only [e1, e2, List.isEmpty_cons, Bool.false_eq_true, if_false]
        exact product_assoc _ _ _

theorem addSegment_eq_combine (cur : List Path) (s : String) : addSegment cur s = combine cur [[s]] := by
  unfold addSegment combine product
  cases cur with
  | nil => simp
  | cons x xs => simp [List.flatMap_cons, List.map_eq_flatMap]

theorem expandPaths_eq_combine (cur sub : List Path) : expandPaths cur sub = combine cur sub := by
  unfold expandPaths combine
  cases sub with
  | nil => cases cur <;> simp
  | cons y ys =>
    cases cur with
    | nil => simp [product]
    | cons x xs => simp

mutual
  theorem stepAtom_eq (a : Atom) (cur : List Path) : stepAtom cur a = combine cur (denoteAtom a) := by
    match a with
    | .seg s => simp [stepAtom, denoteAtom, addSegment_eq_combine]
    | .group alts =>
      simp only [stepAtom, denoteAtom, expandPaths_eq_combine]
      have := altsResult_eq alts []
      simp only [List.nil_append] at this
      rw [this]
  theorem stepTerm_eq (t : List Atom) (cur : List Path) : stepTerm cur t = combine cur (denoteTerm t) := by
    match t with
    | [] => simp [stepTerm, denoteTerm, combine_nil_right]
    | a :: r =>
      simp only [stepTerm, denoteTerm]
      rw [stepTerm_eq r, stepAtom_eq a, combine_assoc]
  theorem altsResult_eq (alts : List (List Atom)) (acc : List Path) : altsResult acc [] alts = acc ++ denoteAlts alts := by
    match alts with
    | [] => simp [altsResult, denoteAlts]
    | [t] => simp [altsResult, denoteAlts, stepTerm_eq t, combine_nil_left]
    | t :: u :: r =>
      simp only [altsResult]
      rw [altsResult_eq (u :: r), stepTerm_eq t, combine_nil_left]
      simp [denoteAlts]
end

/-- the parser computes the meaning of every expression of the grammar -/
theorem parseExpr_eq_denote (e : List (List Atom)) : parseExpr (renderAlts e) = some (denoteAlts e) := by
  rw [parseExpr_render, altsResult_eq]; simp

/-! ### the matcher: walking the candidate from its end = comparing the two paths from the front -/

/-- the paths agree as far as both go -/
def agree : Path → Path → Bool
  | [], _ => true
  | _, [] => true
  | s :: ss, x :: xs => x == s && agree ss xs

theorem agree_snoc (segs rel : Path) (x : String) :
    agree segs (rel ++ [x]) =
      ((if rel.length < segs.length then x == segs.getD rel.length "" else true) && agree segs rel) := by
  induction segs generalizing rel with
  | nil => simp [agree]
  | cons s ss ih =>
    cases rel with
    | nil => simp [agree]; cases ss <;> simp [agree]
    | cons i is =>
      simp only [List.cons_append, agree, List.length_cons, Nat.add_lt_add_iff_right, List.getD_cons_succ]
      rw [ih is]
      cases (i == s) <;> simp

theorem matchWalk_eq_agree_rev (segs l : Path) : matchWalk segs l = agree segs l.reverse := by
  induction l with
  | nil => cases segs <;> simp [matchWalk, agree]
  | cons x rest ih =>
    rw [List.reverse_cons, agree_snoc, matchWalk, ih, List.length_reverse]

theorem matchWalk_eq_agree (segs rel : Path) : matchWalk segs rel.reverse = agree segs rel := by
  rw [matchWalk_eq_agree_rev, List.reverse_reverse]

theorem agree_iff_prefix (segs rel : Path) : agree segs rel = true ↔ (segs <+: rel ∨ rel <+: segs) := by
  induction segs generalizing rel with
  | nil => simp [agree]
  | cons s ss ih =>
    cases rel with
    | nil => simp [agree]
    | cons x xs =>
      simp only [agree, Bool.and_eq_true, beq_iff_eq, ih xs, List.cons_prefix_cons]
      constructor
      · rintro ⟨rfl, h | h⟩
        · exact Or.inl ⟨rfl, h⟩
        · exact Or.inr ⟨rfl, h⟩
      · rintro (⟨rfl, h⟩ | ⟨rfl, h⟩)
        · exact ⟨rfl, Or.inl h⟩
        · exact ⟨rfl, Or.inr h⟩

/-- `selected`: the selector path is a beginning (or all) of the node's path -/
theorem selected_iff (segs rel : Path) : selected segs rel = true ↔ segs <+: rel := by
  unfold selected
  rw [Bool.and_eq_true, matchWalk_eq_agree, agree_iff_prefix, decide_eq_true_iff]
  constructor
  · rintro ⟨h | h, hl⟩
    · exact h
    · have := List.IsPrefix.eq_of_length_le h hl
      subst this; exact List.prefix_refl _
  · intro h; exact ⟨Or.inl h, h.length_le⟩

/-- `leadsTo`: the node's path is a proper beginning of the selector path -/
theorem leadsTo_iff (segs rel : Path) : leadsTo segs rel = true ↔ (rel <+: segs ∧ rel.length < segs.length) := by
  unfold leadsTo
  rw [Bool.and_eq_true, matchWalk_eq_agree, agree_iff_prefix, decide_eq_true_iff]
  constructor
  · rintro ⟨h | h, hl⟩
    · have := h.length_le; omega
    · exact ⟨h, hl⟩
  · rintro ⟨h, hl⟩; exact ⟨Or.inr h, hl⟩

/-! ### projections -/

theorem firstVeto_eq_all (bs : List Bool) : firstVeto bs = bs.all id := by
  induction bs with
  | nil => rfl
  | cons b r ih => cases b <;> simp [firstVeto, ih]

def depthQ (n : Nat) : Query := { depth := some n }

theorem visible_depthQ (n : Nat) (isLeaf cfg : Bool) (rel : Path) :
    visible (depthQ n) isLeaf cfg rel = decide (rel.length ≤ n) := by
  simp [visible, preChecks, depthQ, firstVeto, depthOK, fieldsOK, xfieldsOK, contentOK]

theorem trimmed_off (q : Query) (h : q.trim = false) (d v : Option Val) : trimmed q d v = v := by
  simp [trimmed, h]

theorem window_off (q : Query) (h : q.range = none) (rel : Path) (rows : List α) : window q rel rows = rows := by
  simp [window, h]

mutual
  /-- `depth=n` keeps exactly the nodes at most n levels below the target -/
  theorem proj_depth_node (s : QS) (d : QD) (n : Nat) (ud : Bool) (rel : Path) (m : Nat) (hm : rel.length + m = n) :
      projNode (depthQ n) ud rel s d = cutNode m ud s d := by
    match s, d, m with
    | .leaf nm cfg dv, .leaf v, 0 =>
      have : ¬ (rel.length + 1 ≤ n) := by omega
      simp [projNode, cutNode, visible_depthQ, this]
    | .leaf nm cfg dv, .leaf v, m + 1 =>
      have : rel.length + 1 ≤ n := by omega
      simp only [projNode, cutNode, visible_depthQ, List.length_append, List.length_singleton, this, decide_true, if_true]
      rw [trimmed_off _ rfl]
    | .cont nm cfg ks, .cont (some b), 0 =>
      have : ¬ (rel.length + 1 ≤ n) := by omega
      simp [projNode, cutNode, visible_depthQ, this]
    | .cont nm cfg ks, .cont (some b), m + 1 =>
      have : rel.length + 1 ≤ n := by omega
      simp only [projNode, cutNode, visible_depthQ, List.length_append, List.length_singleton, this, decide_true, if_true]
      rw [proj_depth_body ks b n true (rel ++ [nm]) m (by simp; omega)]
    | .list nm cfg ks, .list rows, 0 =>
      have : ¬ (rel.length + 1 ≤ n) := by omega
      simp [projNode, cutNode, visible_depthQ, this]
    | .list nm cfg ks, .list rows, m + 1 =>
      have : rel.length + 1 ≤ n := by omega
      simp only [projNode, cutNode, visible_depthQ, List.length_append, List.length_singleton, this, decide_true, if_true]
      rw [window_off _ rfl]
      congr 1
      apply List.map_congr_left
      intro b _
      exact proj_depth_body ks b n true (rel ++ [nm]) m (by simp; omega)
    | .cont _ _ _, .cont none, 0 | .cont _ _ _, .cont none, _ + 1 => simp [projNode, cutNode]
    | .leaf _ _ _, .cont _, 0 | .leaf _ _ _, .cont _, _ + 1 | .leaf _ _ _, .list _, 0 | .leaf _ _ _, .list _, _ + 1 => simp [projNode, cutNode]
    | .cont _ _ _, .leaf _, 0 | .cont _ _ _, .leaf _, _ + 1 | .cont _ _ _, .list _, 0 | .cont _ _ _, .list _, _ + 1 => simp [projNode, cutNode]
    | .list _ _ _, .leaf _, 0 | .list _ _ _, .leaf _, _ + 1 | .list _ _ _, .cont _, 0 | .list _ _ _, .cont _, _ + 1 => simp [projNode, cutNode]
  theorem proj_depth_body (ss : List QS) (ds : List QD) (n : Nat) (ud : Bool) (rel : Path) (m : Nat) (hm : rel.length + m = n) :
      projBody (depthQ n) ud rel ss ds = cutBody m ud ss ds := by
    match ss, ds with
    | [], ds => simp [projBody, cutBody]
    | _ :: _, [] => simp [projBody, cutBody]
    | s :: ss, d :: ds =>
      simp only [projBody, cutBody]
      rw [proj_depth_node s d n ud rel m hm, proj_depth_body ss ds n ud rel m hm]
end

/-! ### a constrained read is a part of the unconstrained read -/

mutual
  /-- `d'` is a part of `d`: values unchanged or left out, containers left out or a part, the rows a
      contiguous run of the rows, each a part -/
  def SubNode : QS → QD → QD → Prop
    | .leaf _ _ _, .leaf v', .leaf v => v' = none ∨ v' = v
    | .cont _ _ _, .cont none, .cont _ => True
    | .cont _ _ ks, .cont (some b'), .cont (some b) => SubBody ks b' b
    | .list _ _ ks, .list rows', .list rows =>
      ∃ s : Nat, ∀ (i : Nat) (r' : List QD), rows'[i]? = some r' → ∃ r, rows[s + i]? = some r ∧ SubBody ks r' r
    | _, d', d => d' = d
  def SubBody : List QS → List QD → List QD → Prop
    | s :: ss, d' :: ds', d :: ds => SubNode s d' d ∧ SubBody ss ds' ds
    | _, ds', ds => ds' = ds
end

theorem eff_trim_sub (q : Query) (ud : Bool) (d v : Option Val) :
    trimmed q d (eff ud d v) = none ∨ trimmed q d (eff ud d v) = eff ud d v := by
  unfold trimmed
  cases q.trim with
  | false => right; rfl
  | true =>
    simp only [if_true]
    cases d with
    | none => right; rfl
    | some dv =>
      cases h : eff ud (some dv) v with
      | none => right; rfl
      | some x =>
        by_cases hx : x = dv
        · left; simp [hx]
        · right; simp [hx]

theorem window_getElem (q : Query) (rel : Path) (rows : List α) :
    ∃ s : Nat, ∀ (i : Nat) (r : α), (window q rel rows)[i]? = some r → rows[s + i]? = some r := by
  unfold window
  cases q.range with
  | none => exact ⟨0, fun i r h => by simpa using h⟩
  | some p =>
    obtain ⟨ps, st, e⟩ := p
    simp only
    by_cases hm : pathMatchesExactly ps rel = true
    · simp only [hm, if_true]
      cases e with
      | none => exact ⟨st, fun i r h => by simpa [List.getElem?_drop] using h⟩
      | some e =>
        refine ⟨st, fun i r h => ?_⟩
        rw [List.getElem?_take] at h
        split at h
        · simpa [List.getElem?_drop] using h
        · cases h
    · simp only [hm, if_false]
      exact ⟨0, fun i r h => by simpa using h⟩

/-- the unconstrained read: every parameter absent -/
def noQ : Query := {}

theorem visible_noQ (isLeaf cfg : Bool) (rel : Path) : visible noQ isLeaf cfg rel = true := by
  simp [visible, preChecks, noQ, firstVeto, depthOK, fieldsOK, xfieldsOK, contentOK]

mutual
  theorem proj_sub_node (q : Query) (s : QS) (d : QD) (ud : Bool) (rel : Path) :
      SubNode s (projNode q ud rel s d) (projNode noQ ud rel s d) := by
    match s, d with
    | .leaf nm cfg dv, .leaf v =>
      simp only [projNode, visible_noQ, if_true]
      rw [trimmed_off noQ rfl]
      by_cases hv : visible q true cfg (rel ++ [nm]) = true
      · rw [if_pos hv]; simp only [SubNode]; exact eff_trim_sub q ud dv v
      · rw [if_neg hv]; simp only [SubNode]; left; trivial
    | .cont nm cfg ks, .cont (some b) =>
      simp only [projNode, visible_noQ, if_true]
      by_cases hv : visible q false cfg (rel ++ [nm]) = true
      · rw [if_pos hv]; simp only [SubNode]; exact proj_sub_body q ks b true (rel ++ [nm])
      · rw [if_neg hv]; simp only [SubNode]
    | .list nm cfg ks, .list rows =>
      simp only [projNode, visible_noQ, if_true]
      rw [window_off noQ rfl]
      by_cases hv : visible q false cfg (rel ++ [nm]) = true
      · rw [if_pos hv]; simp only [SubNode]
        obtain ⟨s, hs⟩ := window_getElem q (rel ++ [nm]) rows
        refine ⟨s, fun i r' h => ?_⟩
        rw [List.getElem?_map] at h
        cases hw : (window q (rel ++ [nm]) rows)[i]? with
        | none => rw [hw] at h; cases h
        | some b =>
          rw [hw] at h
          simp only [Option.map_some, Option.some.injEq] at h
          subst h
          refine ⟨projBody noQ true (rel ++ [nm]) ks b, ?_, proj_sub_body q ks b true (rel ++ [nm])⟩
          rw [List.getElem?_map, hs i b hw]; rfl
      · rw [if_neg hv]; simp only [SubNode]
        exact ⟨0, fun i r' h => by simp at h⟩
    | .cont _ _ _, .cont none => simp [projNode, SubNode]
    | .leaf _ _ _, .cont _ | .leaf _ _ _, .list _ => simp [projNode, SubNode]
    | .cont _ _ _, .leaf _ | .cont _ _ _, .list _ => simp [projNode, SubNode]
    | .list _ _ _, .leaf _ | .list _ _ _, .cont _ => simp [projNode, SubNode]
  theorem proj_sub_body (q : Query) (ss : List QS) (ds : List QD) (ud : Bool) (rel : Path) :
      SubBody ss (projBody q ud rel ss ds) (projBody noQ ud rel ss ds) := by
    match ss, ds with
    | [], ds => simp [projBody, SubBody]
    | _ :: _, [] => simp [projBody, SubBody]
    | s :: ss, d :: ds =>
      simp only [projBody, SubBody]
      exact ⟨proj_sub_node q s d ud rel, proj_sub_body q ss ds ud rel⟩
end

end YangVerif.Query
