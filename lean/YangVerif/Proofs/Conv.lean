/-
  Helper lemmas for C10 (conversion is exact or fails).
-/
import YangVerif.Model.Conv
set_option linter.unusedSimpArgs false
namespace YangVerif.Conv

theorem castInt_id (dst : GoInt) (v : Int) (h : dst.inRange v = true) : castInt dst v = v := by
  unfold GoInt.inRange GoInt.lo GoInt.hi at h
  unfold castInt
  cases dst <;> simp [GoInt.signed, GoInt.bits] at h ⊢ <;>
    first
      | (rw [Int.bmod_eq_of_le] <;> omega)
      | omega

/-- a Go integer conversion never leaves the destination range -/
theorem castInt_inRange (dst : GoInt) (v : Int) : dst.inRange (castInt dst v) = true := by
  unfold GoInt.inRange GoInt.lo GoInt.hi castInt
  cases dst <;> simp [GoInt.signed, GoInt.bits] <;>
    first
      | (constructor
         · have := @Int.le_bmod v 256 (by omega); omega
         · have := @Int.bmod_lt v 256 (by omega); omega)
      | (constructor
         · have := @Int.le_bmod v 65536 (by omega); omega
         · have := @Int.bmod_lt v 65536 (by omega); omega)
      | (constructor
         · have := @Int.le_bmod v 4294967296 (by omega); omega
         · have := @Int.bmod_lt v 4294967296 (by omega); omega)
      | (constructor
         · have := @Int.le_bmod v 18446744073709551616 (by omega); omega
         · have := @Int.bmod_lt v 18446744073709551616 (by omega); omega)
      | omega

end YangVerif.Conv

namespace YangVerif.Conv

theorem lookupShape_mem {tbl : List (SrcKind × Shape)} {k : SrcKind} {sh : Shape}
    (h : lookupShape tbl k = some sh) : (k, sh) ∈ tbl := by
  unfold lookupShape at h
  cases hf : tbl.find? (fun e => e.1 == k) with
  | none => simp [hf] at h
  | some e =>
    simp [hf] at h
    have hm := List.mem_of_find?_eq_some hf
    have hk := List.find?_some hf
    simp at hk
    cases e with
    | mk a b => simp at h hk; subst h; subst hk; exact hm

/-- one good clause applied to a well-formed source: same number, inside the 64-bit
    destination, or an error; never an unspecified result -/
theorem entry_exact (dst : GoInt) (hd : dst = .i64 ∨ dst = .u64) (s : Src) (sh : Shape)
    (hg : entryGood dst (kindOf s, sh) = true) (hw : s.wf = true) :
    (∃ r, run sh s = .ok r ∧ s.denoteInt dst.signed = some r ∧ dst.inRange r = true) ∨ run sh s = .err := by
  cases s with
  | int k v =>
    simp only [Src.wf] at hw
    simp only [kindOf] at hg
    cases sh <;> simp [entryGood] at hg
    case ident =>
      left; refine ⟨v, rfl, rfl, ?_⟩
      unfold GoInt.inRange at hw ⊢; simp at hw ⊢; omega
    case cast s d =>
      obtain ⟨⟨⟨h1, h2⟩, h3⟩, h4⟩ := hg
      subst h1; subst h2
      have hin : d.inRange v = true := by
        unfold GoInt.inRange at hw ⊢; simp at hw ⊢; omega
      left; exact ⟨v, by simp [run, castInt_id d v hin], rfl, hin⟩
    case u2s s0 =>
      obtain ⟨⟨h1, h2⟩, h3⟩ := hg
      subst h1; subst h2
      simp only [run]
      by_cases hgt : v > GoInt.i64.hi
      · right; simp [hgt]
      · left; refine ⟨v, by simp [hgt], rfl, ?_⟩
        simp [GoInt.hi, GoInt.signed, GoInt.bits] at hgt
        unfold GoInt.inRange GoInt.lo GoInt.hi at hw ⊢
        cases s0 <;> simp [GoInt.signed, GoInt.bits] at h3 hw ⊢ <;> omega
    case s2u s0 =>
      obtain ⟨⟨h1, h2⟩, h3⟩ := hg
      subst h1; subst h2
      simp only [run]
      by_cases hlt : v < 0
      · right; simp [hlt]
      · left; refine ⟨v, by simp [hlt], rfl, ?_⟩
        unfold GoInt.inRange GoInt.lo GoInt.hi at hw ⊢
        simp [h3, GoInt.signed, GoInt.bits] at hw ⊢
        cases s0 <;> simp [GoInt.signed, GoInt.bits] at h3 hw ⊢ <;> omega
  | float m e =>
    simp only [kindOf] at hg
    cases sh <;> simp [entryGood] at hg
    case floatS =>
      subst hg
      simp only [run]
      by_cases hc : floatIsWhole m e = true ∧ GoInt.i64.inRange (floatWhole m e) = true
      · left; exact ⟨floatWhole m e, by simp [hc], by simp [Src.denoteInt, hc.1], hc.2⟩
      · right; simp [hc]
    case floatU =>
      subst hg
      simp only [run]
      by_cases hc : floatIsWhole m e = true ∧ GoInt.u64.inRange (floatWhole m e) = true
      · left; exact ⟨floatWhole m e, by simp [hc], by simp [Src.denoteInt, hc.1], hc.2⟩
      · right; simp [hc]
  | str t =>
    simp only [kindOf] at hg
    cases sh <;> simp [entryGood] at hg
    case parseInt b =>
      obtain ⟨h1, h2⟩ := hg; subst h1; subst h2
      simp only [run]
      cases hp : parseIntDec t with
      | none => right; rfl
      | some v =>
        have h63 : (2 ^ (64 - 1) : Int) = 9223372036854775808 := by simp
        rw [h63]
        by_cases hr : -(9223372036854775808 : Int) ≤ v ∧ v ≤ (9223372036854775808 : Int) - 1
        · left; refine ⟨v, by simp; omega, by simp [Src.denoteInt, GoInt.signed, hp], ?_⟩
          unfold GoInt.inRange GoInt.lo GoInt.hi; simp [GoInt.signed, GoInt.bits]; omega
        · right; simp; omega
    case parseUint b =>
      obtain ⟨h1, h2⟩ := hg; subst h1; subst h2
      simp only [run]
      cases hp : parseUintDec t with
      | none => right; rfl
      | some v =>
        have hv0 : 0 ≤ v := by
          unfold parseUintDec at hp
          cases hd : digitsVal t.toList with
          | none => simp [hd] at hp
          | some n => simp [hd] at hp; omega
        have h64 : (2 ^ 64 : Int) = 18446744073709551616 := by simp
        rw [h64]
        by_cases hr : v ≤ (18446744073709551616 : Int) - 1
        · left; refine ⟨v, by simp; omega, by simp [Src.denoteInt, GoInt.signed, hp], ?_⟩
          unfold GoInt.inRange GoInt.lo GoInt.hi; simp [GoInt.signed, GoInt.bits]; omega
        · right; simp; omega
  | bool b =>
    simp only [kindOf] at hg
    cases sh <;> simp [entryGood] at hg

theorem conv64_exact (dst : GoInt) (hd : dst = .i64 ∨ dst = .u64) (tbl : List (SrcKind × Shape))
    (htbl : ∀ e ∈ tbl, entryGood dst e = true) (s : Src) (hw : s.wf = true) :
    (∃ r, conv64 tbl s = .ok r ∧ s.denoteInt dst.signed = some r ∧ dst.inRange r = true) ∨ conv64 tbl s = .err := by
  unfold conv64
  cases hl : lookupShape tbl (kindOf s) with
  | none => right; rfl
  | some sh => exact entry_exact dst hd s sh (htbl _ (lookupShape_mem hl)) hw

end YangVerif.Conv

namespace YangVerif.Conv

theorem entry_int_complete (dst : GoInt) (k : GoInt) (sh : Shape) (v : Int)
    (hg : entryGood dst (.int k, sh) = true) (hin : dst.inRange v = true) :
    run sh (.int k v) = .ok v := by
  cases sh <;> simp [entryGood] at hg
  case ident => rfl
  case cast s d =>
    obtain ⟨⟨⟨h1, h2⟩, _⟩, _⟩ := hg
    subst h1; subst h2
    simp [run, castInt_id d v hin]
  case u2s s0 =>
    obtain ⟨⟨h1, h2⟩, _⟩ := hg
    subst h1; subst h2
    unfold GoInt.inRange at hin
    simp [run] at hin ⊢; omega
  case s2u s0 =>
    obtain ⟨⟨h1, h2⟩, _⟩ := hg
    subst h1; subst h2
    unfold GoInt.inRange GoInt.lo at hin
    simp [run, GoInt.signed] at hin ⊢; omega

theorem narrow_find {nt : NarrowTable} {target : GoInt} {e : String × Bool × Int × Int × GoInt}
    (h : nt.find? (fun e => e.2.2.2.2 == target) = some e) : e ∈ nt ∧ e.2.2.2.2 = target := by
  refine ⟨List.mem_of_find?_eq_some h, ?_⟩
  have := List.find?_some h
  simpa using this

theorem convInt_sound (tS tU : List (SrcKind × Shape)) (nt : NarrowTable)
    (hS : ∀ e ∈ tS, entryGood .i64 e = true) (hU : ∀ e ∈ tU, entryGood .u64 e = true)
    (hN : ∀ e ∈ nt, narrowGood e = true) (target : GoInt) (s : Src) (hw : s.wf = true) :
    (∃ r, convInt tS tU nt target s = .ok r ∧ s.denoteInt target.signed = some r ∧ target.inRange r = true)
    ∨ convInt tS tU nt target s = .err := by
  unfold convInt
  by_cases h1 : target = .i64
  · subst h1; simp only [if_true]
    exact conv64_exact .i64 (Or.inl rfl) tS hS s hw
  · by_cases h2 : target = .u64
    · subst h2; simp only [if_neg h1, if_true]
      exact conv64_exact .u64 (Or.inr rfl) tU hU s hw
    · simp only [if_neg h1, if_neg h2]
      cases hf : nt.find? (fun e => e.2.2.2.2 == target) with
      | none => right; rfl
      | some e =>
        obtain ⟨hm, ht⟩ := narrow_find hf
        obtain ⟨nm, viaS, lo, hi, d⟩ := e
        simp only at ht; subst ht
        have hg := hN _ hm
        simp [narrowGood] at hg
        obtain ⟨⟨⟨hv, hlo⟩, hhi⟩, _⟩ := hg
        subst hv; subst hlo; subst hhi
        simp only
        cases hsg : d.signed with
        | true =>
          simp only [if_true]
          rcases conv64_exact .i64 (Or.inl rfl) tS hS s hw with ⟨r, hr, hden, _⟩ | herr
          · rw [hr]; simp only [narrow]
            by_cases hin : d.lo ≤ r ∧ r ≤ d.hi
            · left
              have hin' : d.inRange r = true := by unfold GoInt.inRange; simp [hin]
              refine ⟨r, by simp [hin, castInt_id d r hin'], ?_, hin'⟩
              simpa [GoInt.signed] using hden
            · right; simp [hin]
          · right; rw [herr]; rfl
        | false =>
          simp only [Bool.false_eq_true, if_false]
          rcases conv64_exact .u64 (Or.inr rfl) tU hU s hw with ⟨r, hr, hden, _⟩ | herr
          · rw [hr]; simp only [narrow]
            by_cases hin : d.lo ≤ r ∧ r ≤ d.hi
            · left
              have hin' : d.inRange r = true := by unfold GoInt.inRange; simp [hin]
              refine ⟨r, by simp [hin, castInt_id d r hin'], ?_, hin'⟩
              simpa [GoInt.signed] using hden
            · right; simp [hin]
          · right; rw [herr]; rfl

/-- Conv never returns a *different* number: spelled out as the contrapositive users rely on -/
theorem convInt_never_wrong (tS tU : List (SrcKind × Shape)) (nt : NarrowTable)
    (hS : ∀ e ∈ tS, entryGood .i64 e = true) (hU : ∀ e ∈ tU, entryGood .u64 e = true)
    (hN : ∀ e ∈ nt, narrowGood e = true) (target : GoInt) (s : Src) (hw : s.wf = true) (r : Int)
    (h : convInt tS tU nt target s = .ok r) :
    s.denoteInt target.signed = some r ∧ target.inRange r = true := by
  rcases convInt_sound tS tU nt hS hU hN target s hw with ⟨r', hr', hd, hi⟩ | herr
  · rw [h] at hr'; cases hr'; exact ⟨hd, hi⟩
  · rw [h] at herr; cases herr

end YangVerif.Conv

namespace YangVerif.Conv

theorem conv64_int_complete (dst : GoInt) (tbl : List (SrcKind × Shape))
    (htbl : ∀ e ∈ tbl, entryGood dst e = true) (k : GoInt) (v : Int)
    (hcov : (lookupShape tbl (.int k)).isSome = true) (hin : dst.inRange v = true) :
    conv64 tbl (.int k v) = .ok v := by
  unfold conv64
  simp only [kindOf]
  cases hl : lookupShape tbl (.int k) with
  | none => simp [hl] at hcov
  | some sh => exact entry_int_complete dst k sh v (htbl _ (lookupShape_mem hl)) hin

theorem convInt_int_complete (tS tU : List (SrcKind × Shape)) (nt : NarrowTable)
    (hS : ∀ e ∈ tS, entryGood .i64 e = true) (hU : ∀ e ∈ tU, entryGood .u64 e = true)
    (hN : ∀ e ∈ nt, narrowGood e = true) (target k : GoInt) (v : Int)
    (hcS : (lookupShape tS (.int k)).isSome = true) (hcU : (lookupShape tU (.int k)).isSome = true)
    (hcN : target = .i64 ∨ target = .u64 ∨ (nt.find? (fun e => e.2.2.2.2 == target)).isSome = true)
    (hin : target.inRange v = true) :
    convInt tS tU nt target (.int k v) = .ok v := by
  unfold convInt
  by_cases h1 : target = .i64
  · subst h1; simp only [if_true]; exact conv64_int_complete .i64 tS hS k v hcS hin
  · by_cases h2 : target = .u64
    · subst h2; simp only [if_neg h1, if_true]; exact conv64_int_complete .u64 tU hU k v hcU hin
    · simp only [if_neg h1, if_neg h2]
      rcases hcN with h | h | h
      · exact absurd h h1
      · exact absurd h h2
      · cases hf : nt.find? (fun e => e.2.2.2.2 == target) with
        | none => simp [hf] at h
        | some e =>
          obtain ⟨hm, ht⟩ := narrow_find hf
          obtain ⟨nm, viaS, lo, hi, d⟩ := e
          simp only at ht; subst ht
          have hg := hN _ hm
          simp [narrowGood] at hg
          obtain ⟨⟨⟨hv, hlo⟩, hhi⟩, hb⟩ := hg
          subst hv; subst hlo; subst hhi
          have hrange : d.lo ≤ v ∧ v ≤ d.hi := by
            unfold GoInt.inRange at hin; simpa using hin
          simp only
          cases hsg : d.signed with
          | true =>
            have hin64 : GoInt.i64.inRange v = true := by
              unfold GoInt.inRange GoInt.lo GoInt.hi at hin ⊢
              cases d <;> simp [GoInt.signed, GoInt.bits] at hsg hb hin ⊢ <;> omega
            simp only [if_true]
            rw [conv64_int_complete .i64 tS hS k v hcS hin64]
            simp [narrow, hrange, castInt_id d v hin]
          | false =>
            have hin64 : GoInt.u64.inRange v = true := by
              unfold GoInt.inRange GoInt.lo GoInt.hi at hin ⊢
              cases d <;> simp [GoInt.signed, GoInt.bits] at hsg hb hin ⊢ <;> omega
            simp only [Bool.false_eq_true, if_false]
            rw [conv64_int_complete .u64 tU hU k v hcU hin64]
            simp [narrow, hrange, castInt_id d v hin]

end YangVerif.Conv
