/-
  Helper lemmas for C01.
-/
import YangVerif.Model.Expand
set_option linter.unusedSimpArgs false
set_option linter.unusedVariables false
namespace YangVerif.Expand

theorem expandL_append (env : Env) (f : Nat) (a b : List N) :
    expandL env f (a ++ b) = expandL env f a ++ expandL env f b := by
  induction a with
  | nil => simp [expandL]
  | cons n r ih => simp [expandL, ih]

mutual
  /-- the grouping `g` is not used anywhere in the node (nor in the nodes its uses add) -/
  def freshN (g : String) : N → Bool
    | .leaf _ _ => true
    | .node _ _ _ kids => freshL g kids
    | .uses g' _ augs => g' != g && freshA g augs
  def freshL (g : String) : List N → Bool
    | [] => true
    | n :: r => freshN g n && freshL g r
  def freshA (g : String) : List (Path × List N) → Bool
    | [] => true
    | (_, ks) :: r => freshL g ks && freshA g r
end

/-- no grouping of the environment uses `g` -/
def freshEnv (g : String) : Env → Bool
  | [] => true
  | (_, b) :: r => freshL g b && freshEnv g r

theorem lookup_fresh (g : String) (env : Env) (h : freshEnv g env = true) (g' : String) (body : List N)
    (hl : lookupG g' env = some body) : freshL g body = true := by
  induction env with
  | nil => simp [lookupG] at hl
  | cons e r ih =>
    obtain ⟨n, b⟩ := e
    simp only [freshEnv, Bool.and_eq_true] at h
    simp only [lookupG] at hl
    split at hl
    · simp at hl; subst hl; exact h.1
    · exact ih h.2 hl

theorem lookup_other (g g' : String) (mid : List N) (env : Env) (h : g' ≠ g) :
    lookupG g' ((g, mid) :: env) = lookupG g' env := by
  simp only [lookupG]
  have : ¬ g = g' := fun e => h e.symm
  simp [this]

/-- S f: at fuel f, adding an unused grouping to the environment changes no expansion -/
def S (g : String) (mid : List N) (env : Env) (f : Nat) : Prop :=
  (∀ ns, freshL g ns = true → expandL ((g, mid) :: env) f ns = expandL env f ns)

mutual
  theorem fresh_N (g : String) (mid : List N) (env : Env) (henv : freshEnv g env = true) (f : Nat)
      (prev : ∀ f', f' < f → S g mid env f') (n : N) (h : freshN g n = true) :
      expandN ((g, mid) :: env) f n = expandN env f n := by
    match n with
    | .leaf nm p => simp [expandN]
    | .node k nm p kids =>
      simp only [freshN] at h
      simp only [expandN]
      rw [fresh_L g mid env henv f prev kids h]
    | .uses g' refs augs =>
      simp only [freshN, Bool.and_eq_true, bne_iff_ne, ne_eq] at h
      cases f with
      | zero => simp [expandN]
      | succ f0 =>
        simp only [expandN]
        rw [lookup_other g g' mid env h.1]
        cases hl : lookupG g' env with
        | none => rfl
        | some body =>
          simp only
          have hb := lookup_fresh g env henv g' body hl
          rw [prev f0 (by omega) body hb]
          exact fresh_A g mid env henv f0 (fun f' hf' => prev f' (by omega)) augs h.2 _
  theorem fresh_L (g : String) (mid : List N) (env : Env) (henv : freshEnv g env = true) (f : Nat)
      (prev : ∀ f', f' < f → S g mid env f') (ns : List N) (h : freshL g ns = true) :
      expandL ((g, mid) :: env) f ns = expandL env f ns := by
    match ns with
    | [] => simp [expandL]
    | n :: r =>
      simp only [freshL, Bool.and_eq_true] at h
      simp only [expandL]
      rw [fresh_N g mid env henv f prev n h.1, fresh_L g mid env henv f prev r h.2]
  theorem fresh_A (g : String) (mid : List N) (env : Env) (henv : freshEnv g env = true) (f : Nat)
      (prev : ∀ f', f' < f + 1 → S g mid env f') (augs : List (Path × List N)) (h : freshA g augs = true) (ts : List T) :
      expandAugs ((g, mid) :: env) f augs ts = expandAugs env f augs ts := by
    match augs with
    | [] => simp [expandAugs]
    | (p, ks) :: r =>
      simp only [freshA, Bool.and_eq_true] at h
      simp only [expandAugs]
      rw [prev f (by omega) ks h.1]
      exact fresh_A g mid env henv f prev r h.2 _
end

theorem fresh_all (g : String) (mid : List N) (env : Env) (henv : freshEnv g env = true) (f : Nat) : S g mid env f := by
  induction f using Nat.strongRecOn with
  | _ f ih =>
    intro ns h
    exact fresh_L g mid env henv f ih ns h

end YangVerif.Expand
