/-
  C19 — XML export and import are inverse on every data tree.

  Layers: (1) character data: escapeText / XML reference decoding; (2) element trees ⇄ token stream
  with namespace declarations, compact and indented; (3) the two writers (XMLWtr2 builds a tree,
  XMLWtr streams) produce the XML encoding of the data; (4) XmlNode reads that encoding back.
-/
import YangVerif.Proofs.Xml
namespace YangVerif.C19
open YangVerif.Xml

/-- the document XMLWtr2 marshals: the element it built for `root` -/
def doc2 (root : QName) (ss : List XS) (ds : List XD) : Option (List Tok) :=
  match buildAll [(root, [])] (events root.ns ss ds) with
  | some [(q, ks)] => some (render "" (.mk q [] ks))
  | _ => none

/-- the document XMLWtr streams: root start tag with its namespace, the callbacks' tokens, root end tag -/
def docStream (root : QName) (ss : List XS) (ds : List XD) : List Tok :=
  .open root.loc (some root.ns) :: streamAll (events root.ns ss ds) ++ [.close root.loc]

/-- the intended document -/
def docOf (root : QName) (ss : List XS) (ds : List XD) : Elem := .mk root [] (toXMLBody ss ds)

/-- **text content is escaped on output and restored exactly on input**: every text made of characters
    XML can carry (= the characters of a YANG string) — markup characters, both quotes, `]]>`,
    leading/trailing/inner blanks, tab, LF, CR, non-ASCII — decodes to itself -/
theorem text_roundtrip (s : Text) (h : ∀ c ∈ s, isXmlChar c = true) :
    unescapeText (escapeText s) = some s := unescape_escape s h

/-- … also in the middle of other character data -/
theorem text_roundtrip_in_context (s rest : Text) (h : ∀ c ∈ s, isXmlChar c = true) :
    unescapeText (escapeText s ++ rest) = (unescapeText rest).map (s ++ ·) := unescape_escape_append s rest h

/-- **escaped text cannot break the document**: no `<` (no tag, comment or CDATA can start), no `>`
    (no `]]>`), and no raw CR (line-end normalisation would turn it into LF) -/
theorem escaped_text_is_inert (s : Text) (x : Nat) (hx : x ∈ escapeText s) : x ≠ 60 ∧ x ≠ 62 ∧ x ≠ 13 :=
  escapeText_safe s x hx

/-- **XMLWtr2 writes the encoding of the data**: for every schema and data the tree it builds under the
    root, marshalled, is the serialisation of the intended document -/
theorem writer2_eq_render (root : QName) (ss : List XS) (ds : List XD) :
    doc2 root ss ds = some (render "" (docOf root ss ds)) := by
  unfold doc2 docOf
  rw [build_body ss ds root.ns root [] []]
  simp

/-- **XMLWtr streams the same document**, token for token, given the root has a namespace -/
theorem stream_eq_render (root : QName) (ss : List XS) (ds : List XD) (hns : root.ns ≠ "") :
    docStream root ss ds = render "" (docOf root ss ds) := by
  unfold docStream docOf
  have : decl "" root = some root.ns := by unfold decl; simp [hns]
  simp [render, this, textToks, stream_body]

/-- **well-formed, single root**: a reader of the token stream accepts the serialisation of every element
    tree, consumes all of it, and gets that tree with every namespace resolved -/
theorem render_wellformed (e : Elem) : parseDoc (render "" e) = some e := parseDoc_render e

/-- … and the indented serialisation gives the same tree with the indentation as character data of
    the elements that have child elements (never inside an element that holds text) -/
theorem renderP_wellformed (e : Elem) : parseDoc (renderP 0 "" e) = some (deco true 0 e) := parseDoc_renderP e

/-- **reading back gives the data**: for every schema whose sibling nodes have distinct qualified names
    and a namespace, and every data tree of its shape, what XmlNode presents for the written elements
    is the tree — leaves with their exact text, leaf-list values and list entries in order, nodes of
    other namespaces (groupings, augments) found by local name and namespace -/
theorem xml_roundtrip (ss : List XS) (ds : List XD) (hok : okBody ss = true) (hc : confBody ss ds = true) :
    readBody ss (toXMLBody ss ds) = ds := by
  have := read_body ss ds false 0 hok hc
  rw [← decoKids_eq_map, decoKids_false] at this
  exact this

/-- the same through either writer and the token reader: write, parse, read -/
theorem write_parse_read (root : QName) (ss : List XS) (ds : List XD) (hns : root.ns ≠ "")
    (hok : okBody ss = true) (hc : confBody ss ds = true) :
    ((doc2 root ss ds).bind parseDoc).map (fun e => readBody ss e.kids) = some ds ∧
    (parseDoc (docStream root ss ds)).map (fun e => readBody ss e.kids) = some ds := by
  rw [writer2_eq_render, stream_eq_render root ss ds hns]
  simp [render_wellformed, docOf, Elem.kids, xml_roundtrip ss ds hok hc]

/-- the same for the indented output (`WriteXMLDoc(sel, true)`) -/
theorem write_pretty_parse_read (root : QName) (ss : List XS) (ds : List XD)
    (hok : okBody ss = true) (hc : confBody ss ds = true) :
    (parseDoc (renderP 0 "" (docOf root ss ds))).map (fun e => readBody ss e.kids) = some ds := by
  rw [renderP_wellformed]
  simp only [Option.map_some, deco_kids, decoKids_eq_map, docOf, mk_kids]
  rw [read_body ss ds true 1 hok hc]

/-- **interleaving**: the reader sees the elements of a parent only through the per-name subsequences, so
    any rearrangement of siblings that keeps the relative order of same-named elements reads the same -/
theorem interleave_invariant (ss : List XS) (es es' : List Elem)
    (h : ∀ s ∈ ss, es.filter (isFor s.name) = es'.filter (isFor s.name)) :
    readBody ss es = readBody ss es' := readBody_congr ss es es' h

/-- **names and namespaces select the node**: an element that carries a namespace is taken for a schema
    node exactly when both local name and namespace agree -/
theorem namespace_selects (q : QName) (e : Elem) (hns : e.name.ns ≠ "") : isFor q e = true ↔ e.name = q := by
  constructor
  · intro h
    by_cases he : e.name = q
    · exact he
    · rw [isFor_other q e he hns] at h; cases h
  · exact isFor_same q e

/-! #### non-vacuity -/
def exSchema : List XS :=
  [.leaf ⟨"a", "urn:m"⟩, .leafList ⟨"ll", "urn:m"⟩,
   .cont ⟨"c", "urn:m"⟩ [.leaf ⟨"x", "urn:g"⟩, .leaf ⟨"x", "urn:m"⟩],
   .list ⟨"l", "urn:m"⟩ [.leaf ⟨"k", "urn:m"⟩]]
def exData : List XD :=
  [.leaf (some [32, 60, 38, 13, 32]), .leafList [[49], [], [50]],
   .cont (some [.leaf (some [103]), .leaf (some [109])]),
   .list [[.leaf (some [98])], [.leaf (some [97])]]]
example : okBody exSchema = true ∧ confBody exSchema exData = true := by decide
example : escapeText [32, 60, 38, 13, 34, 93, 93, 62, 233] =
    [32, 38, 108, 116, 59, 38, 97, 109, 112, 59, 38, 35, 120, 68, 59, 38, 35, 51, 52, 59, 93, 93, 38, 103, 116, 59, 233] := by decide
example : docStream ⟨"m", "urn:m"⟩ exSchema exData =
    [.open "m" (some "urn:m"), .open "a" none, .text [32, 60, 38, 13, 32], .close "a",
     .open "ll" none, .text [49], .close "ll", .open "ll" none, .close "ll", .open "ll" none, .text [50], .close "ll",
     .open "c" none, .open "x" (some "urn:g"), .text [103], .close "x", .open "x" none, .text [109], .close "x", .close "c",
     .open "l" none, .open "k" none, .text [98], .close "k", .close "l",
     .open "l" none, .open "k" none, .text [97], .close "k", .close "l", .close "m"] := by
  simp [docStream, streamAll, stream, events, nodeEvents, rowEvents, exSchema, exData, decl, textToks]

end YangVerif.C19
