/-
  C08 — Find reaches exactly the addressed node, and paths render back to it.
  This file: the text codec of paths (escaping, splitting), lookup by key, and the walk of Find over schema
  and data (Model/Find.lean: parseUrlPath's schema check and findSlice) against the node an address names.
-/
import YangVerif.Proofs.Path
import YangVerif.Proofs.Data
import YangVerif.Proofs.Find
namespace YangVerif.C08
open YangVerif.Path

/-- a key survives escaping: for **every** byte string (incl. '/', ',', '=', '%', '+', blanks,
    non-ASCII) unescape ∘ escape is the identity -/
theorem escape_unescape (k : Bytes) (h : ∀ b ∈ k, b < 256) : unescape (escape k) = some k :=
  unescape_escape k h

/-- escaped keys contain no path, key or ident separator -/
theorem escaped_has_no_separator (k : Bytes) (h : ∀ b ∈ k, b < 256) :
    ∀ c ∈ escape k, c ≠ 47 ∧ c ≠ 44 ∧ c ≠ 61 := escape_no_special k h

/-- **the path of a selection identifies the same location**: parsing the rendered path gives
    back exactly the segments (identifiers and key tuples), for every path of any length,
    compound keys and arbitrary key content -/
theorem parse_render (segs : List Seg) (h : ∀ s ∈ segs, SegOK s) :
    parsePath (renderPath segs) = some segs := parsePath_renderPath segs h

/-- a trailing slash changes nothing -/
theorem trailing_slash (segs : List Seg) (h : ∀ s ∈ segs, SegOK s) (hne : segs ≠ []) :
    parsePath (renderPath segs ++ [47]) = some segs := by
  unfold parsePath renderPath
  have hne' : segs.map renderSeg ≠ [] := by simpa using hne
  have hsep : ∀ x ∈ segs.map renderSeg, (47 : Nat) ∉ x := by
    intro x hx
    obtain ⟨t, ht, rfl⟩ := List.mem_map.1 hx
    exact renderSeg_no_slash t (h t ht)
  have : join 47 (segs.map renderSeg) ++ [47] = join 47 (segs.map renderSeg ++ [[]]) := by
    generalize segs.map renderSeg = xs at hne'
    induction xs with
    | nil => exact absurd rfl hne'
    | cons x r ih =>
      cases r with
      | nil => simp [join]
      | cons y r' => simp [join, ih (by simp)]
  rw [this, splitOn_join 47 _ (by simp)]
  · rw [List.takeWhile_append_of_pos]
    · simp only [List.takeWhile, List.isEmpty_nil, Bool.not_true, List.append_nil]
      exact mapM_parseSeg_render _ h
    · intro x hx
      obtain ⟨t, ht, rfl⟩ := List.mem_map.1 hx
      simp [renderSeg_nonempty t (h t ht)]
  · intro x hx
    rcases List.mem_append.1 hx with h1 | h1
    · exact hsep x h1
    · simp at h1; subst h1; simp

/-- the renderer of the pinned tree wrote keys unescaped: a key containing '/' does not come back -/
theorem legacy_render_witness :
    parsePath (renderPathLegacy [⟨[120], []⟩, ⟨[115], [[97, 47, 98]]⟩]) ≠ some [⟨[120], []⟩, ⟨[115], [[97, 47, 98]]⟩] ∧
    parsePath (renderPath [⟨[120], []⟩, ⟨[115], [[97, 47, 98]]⟩]) = some [⟨[120], []⟩, ⟨[115], [[97, 47, 98]]⟩] := by
  decide

/-- lookup by key: present keys are found with their entry, absent keys give nothing -/
theorem find_entry_exact (rows : List (Data.Key × List Data.Data)) (k : Data.Key) :
    ((Data.findRow k rows).isSome = true ↔ k ∈ Data.keysOf rows) := Data.findRow_isSome_iff k rows

/-! ### the walk: Find against the node an address names (`Find.Reach`) -/

section walk
open YangVerif.Find YangVerif.Data

/-- **Find reaches the addressed node**: for every tree of any depth whose lists have unique keys and every
    address that names a node of it (a container, a list, a list entry at any depth, a leaf), Find returns
    exactly that node -/
theorem find_reaches_addressed (ks : List Schema) (b : List Data) (p : List Find.Seg) (l : Loc)
    (hu : uniqueKeysBody b = true) (h : Reach ks b p l) : find ks b p = .found l := by
  unfold find; rw [reach_check h]; exact reach_walk h hu

/-- **and nothing else**: whatever Find returns is a node the path names — never a sibling, a neighbour's
    entry or a node of another level (no hypothesis on the keys) -/
theorem find_only_addressed (ks : List Schema) (b : List Data) (p : List Find.Seg) (l : Loc)
    (h : find ks b p = .found l) : Reach ks b p l := by
  unfold find at h
  cases hc : checkSegs ks p with
  | none => rw [hc] at h; exact walk_reach p ks b l hc h
  | some r => rw [hc] at h; cases r <;> simp at h

/-- an address names at most one node when keys are unique -/
theorem address_names_one_node (ks : List Schema) (b : List Data) (p : List Find.Seg) (l₁ l₂ : Loc)
    (hu : uniqueKeysBody b = true) (h₁ : Reach ks b p l₁) (h₂ : Reach ks b p l₂) : l₁ = l₂ := by
  have e₁ := find_reaches_addressed ks b p l₁ hu h₁
  have e₂ := find_reaches_addressed ks b p l₂ hu h₂
  rw [e₁] at e₂; injection e₂

/-- a path that names nothing finds nothing: absent containers, absent keys, unknown names and malformed
    steps never yield a selection -/
theorem find_nothing_when_absent (ks : List Schema) (b : List Data) (p : List Find.Seg)
    (h : ¬ ∃ l, Reach ks b p l) : ∀ l, find ks b p ≠ .found l :=
  fun l e => h ⟨l, find_only_addressed ks b p l e⟩

/-- "not found" is a verdict about the schema alone: it does not depend on the data at all -/
theorem not_found_is_schema_only (ks : List Schema) (b b' : List Data) (p : List Find.Seg) :
    find ks b p = .notFound ↔ find ks b' p = .notFound := by
  have key : ∀ x : List Data, find ks x p = .notFound ↔ checkSegs ks p = some .notFound := by
    intro x
    unfold find
    cases hc : checkSegs ks p with
    | none => simp [walk_ne_notFound]
    | some r => cases r <;> simp
  rw [key b, key b']

/-- what Find selects is shaped by the schema it reports for it -/
theorem found_conforms (ks : List Schema) (b : List Data) (p : List Find.Seg) (ks' : List Schema) (b' : List Data)
    (hc : conformsBody ks b = true) (h : find ks b p = .found (.body ks' b')) : conformsBody ks' b' = true := by
  unfold find at h
  cases hcs : checkSegs ks p with
  | none => rw [hcs] at h; exact walk_conforms p ks b ks' b' hc h
  | some r => rw [hcs] at h; cases r <;> simp at h

/-- text to node: the rendered path of an address parses back to the same steps (`parse_render`), so Find of
    the *text* of an address reaches the node the address names -/
theorem find_of_rendered_path (segs : List Path.Seg) (hok : ∀ s ∈ segs, SegOK s)
    (resolve : List Path.Seg → List Find.Seg) (ks : List Schema) (b : List Data) (l : Loc)
    (hu : uniqueKeysBody b = true) (h : Reach ks b (resolve segs) l) :
    (parsePath (renderPath segs)).map (fun sg => find ks b (resolve sg)) = some (.found l) := by
  rw [parse_render segs hok]; simp [find_reaches_addressed ks b (resolve segs) l hu h]

/-! #### non-vacuity: a list in a list entry, a container in it, compound key -/
def exKs : List Schema := [.leaf none, .list 2 [.leaf none, .leaf none, .cont [.leaf (some "d")], .list 1 [.leaf none]]]
def exB : List Data :=
  [.leaf (some "x"),
   .list [(["a", "1"], [.leaf (some "a"), .leaf (some "1"), .cont none, .list []]),
          (["a/b", "2"], [.leaf (some "a/b"), .leaf (some "2"), .cont (some [.leaf none]),
                          .list [(["k"], [.leaf (some "k")])]])]]

example : uniqueKeysBody exB = true ∧ conformsBody exKs exB = true := by decide
example : Reach exKs exB [⟨1, ["a/b", "2"]⟩, ⟨3, ["k"]⟩] (.body [.leaf none] [.leaf (some "k")]) := by
  refine .entry exKs exB 1 2 _ _ ["a/b", "2"]
    [.leaf (some "a/b"), .leaf (some "2"), .cont (some [.leaf none]), .list [(["k"], [.leaf (some "k")])]]
    _ _ rfl rfl (by simp) rfl (by simp) ?_
  exact .entry _ _ 3 1 _ _ ["k"] [.leaf (some "k")] _ _ rfl rfl (by simp) rfl (by simp) (.here _ _)
/-- tests of the model's verdicts, labelled as tests: default of an unset leaf, absent container, absent key,
    unknown name, key on a container, wrong number of components, a step below a leaf, a keyless list in the middle -/
example : (match find exKs exB [⟨1, ["a/b", "2"]⟩, ⟨2, []⟩, ⟨0, []⟩] with | .found (.leaf (some "d")) => true | _ => false) = true := by decide
example : (match find exKs exB [⟨1, ["a", "1"]⟩, ⟨2, []⟩] with | .none => true | _ => false) = true := by decide
example : (match find exKs exB [⟨1, ["zz", "1"]⟩] with | .none => true | _ => false) = true := by decide
example : (match find exKs exB [⟨7, []⟩] with | .notFound => true | _ => false) = true := by decide
example : (match find exKs exB [⟨1, ["a/b", "2"]⟩, ⟨2, ["k"]⟩] with | .bad => true | _ => false) = true := by decide
example : (match find exKs exB [⟨1, ["a"]⟩] with | .bad => true | _ => false) = true := by decide
example : (match find exKs exB [⟨0, []⟩, ⟨0, []⟩] with | .bad => true | _ => false) = true := by decide
example : (match find exKs exB [⟨1, []⟩, ⟨0, []⟩] with | .bad => true | _ => false) = true := by decide

/-- with two entries under one key (a store that broke C18) the walk still returns a node of that address: the first -/
theorem duplicate_key_witness :
    (match walk [.list 1 [.leaf none, .leaf none]]
        [.list [(["k"], [.leaf (some "k"), .leaf (some "1")]), (["k"], [.leaf (some "k"), .leaf (some "2")])]] [⟨0, ["k"]⟩] with
     | .found (.body _ [_, .leaf (some "1")]) => true | _ => false) = true := by decide

end walk

/-! #### non-vacuity -/
example : SegOK ⟨[108, 105], [[97, 47, 98], [44, 61, 37, 43, 32, 233]]⟩ := by
  refine ⟨by simp, ?_, ?_⟩
  · intro c hc; simp at hc; rcases hc with rfl | rfl <;> decide
  · intro k hk c hc; simp at hk; rcases hk with rfl | rfl <;> simp at hc <;> omega

end YangVerif.C08
