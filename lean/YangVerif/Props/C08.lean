/-
  C08 — Find reaches exactly the addressed node, and paths render back to it.
  This file: the text codec of paths (escaping, splitting) and lookup by key.
-/
import YangVerif.Proofs.Path
import YangVerif.Proofs.Data
namespace YangVerif.C08
open YangVerif.Path

/-- a key survives escaping: for **every** byte string (incl. '/', ',', '=', '%', '+', blanks,
    non-ASCII) unescape ∘ escape is the identity -/
theorem escape_unescape (k : Bytes) (h : ∀ b ∈ k, b < 256) : unescape (escape k) = some k :=
  unescape_escape k h

/-- escaped keys contain no path, key or ident separator -/
theorem escaped_has_no_separator (k : Bytes) (h : ∀ b ∈ k, b < 256) :
    ∀ c ∈ escape k, c ≠ 47 ∧ c ≠ 44 ∧ c ≠ 61 := escape_no_special k h

/-- **the path of a selection identifies the same location**: parsing the rendered path gives
    back exactly the segments (identifiers and key tuples), for every path of any length,
    compound keys and arbitrary key content -/
theorem parse_render (segs : List Seg) (h : ∀ s ∈ segs, SegOK s) :
    parsePath (renderPath segs) = some segs := parsePath_renderPath segs h

/-- a trailing slash changes nothing -/
theorem trailing_slash (segs : List Seg) (h : ∀ s ∈ segs, SegOK s) (hne : segs ≠ []) :
    parsePath (renderPath segs ++ [47]) = some segs := by
  unfold parsePath renderPath
  have hne' : segs.map renderSeg ≠ [] := by simpa using hne
  have hsep : ∀ x ∈ segs.map renderSeg, (47 : Nat) ∉ x := by
    intro x hx
    obtain ⟨t, ht, rfl⟩ := List.mem_map.1 hx
    exact renderSeg_no_slash t (h t ht)
  have : join 47 (segs.map renderSeg) ++ [47] = join 47 (segs.map renderSeg ++ [[]]) := by
    generalize segs.map renderSeg = xs at hne'
    induction xs with
    | nil => exact absurd rfl hne'
    | cons x r ih =>
      cases r with
      | nil => simp [join]
      | cons y r' => simp [join, ih (by simp)]
  rw [this, splitOn_join 47 _ (by simp)]
  · rw [List.takeWhile_append_of_pos]
    · simp only [List.takeWhile, List.isEmpty_nil, Bool.not_true, List.append_nil]
      exact mapM_parseSeg_render _ h
    · intro x hx
      obtain ⟨t, ht, rfl⟩ := List.mem_map.1 hx
      simp [renderSeg_nonempty t (h t ht)]
  · intro x hx
    rcases List.mem_append.1 hx with h1 | h1
    · exact hsep x h1
    · simp at h1; subst h1; simp

/-- the renderer of the pinned tree wrote keys unescaped: a key containing '/' does not come back -/
theorem legacy_render_witness :
    parsePath (renderPathLegacy [⟨[120], []⟩, ⟨[115], [[97, 47, 98]]⟩]) ≠ some [⟨[120], []⟩, ⟨[115], [[97, 47, 98]]⟩] ∧
    parsePath (renderPath [⟨[120], []⟩, ⟨[115], [[97, 47, 98]]⟩]) = some [⟨[120], []⟩, ⟨[115], [[97, 47, 98]]⟩] := by
  decide

/-- lookup by key: present keys are found with their entry, absent keys give nothing -/
theorem find_entry_exact (rows : List (Data.Key × List Data.Data)) (k : Data.Key) :
    ((Data.findRow k rows).isSome = true ↔ k ∈ Data.keysOf rows) := Data.findRow_isSome_iff k rows

/-! #### non-vacuity -/
example : SegOK ⟨[108, 105], [[97, 47, 98], [44, 61, 37, 43, 32, 233]]⟩ := by
  refine ⟨by simp, ?_, ?_⟩
  · intro c hc; simp at hc; rcases hc with rfl | rfl <;> decide
  · intro k hk c hc; simp at hk; rcases hk with rfl | rfl <;> simp at hc <;> omega

end YangVerif.C08
