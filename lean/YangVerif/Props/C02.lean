/-
  C02 — every leaf's effective type is the RFC 7950 derivation of its type statement.

  `TypeDerive.leafEff` is the specification; the correspondence ties meta/compile.go to it.  Theorems:
  the numbering rule for enum values and bit positions, "an explicit statement wins, otherwise the nearest
  typedef", lexical scoping, accumulation of restrictions.
-/
import YangVerif.Model.TypeDerive
namespace YangVerif.C02
open YangVerif.TypeDerive

/-! ### enum values / bit positions (RFC 7950 §9.6.4.2, §9.7.4.2) -/

/-- the counter after numbering a list: what the next entry without a value would get -/
def nextAfter (next : Int) (first : Bool) : List (String × Option Int) → Int × Bool
  | [] => (next, first)
  | (_, some v) :: r => nextAfter (if first || v ≥ next then v + 1 else next) false r
  | (_, none) :: r => nextAfter (next + 1) false r

theorem number_append (next : Int) (first : Bool) (a b : List (String × Option Int)) :
    number next first (a ++ b) = number next first a ++ number (nextAfter next first a).1 (nextAfter next first a).2 b := by
  induction a generalizing next first with
  | nil => simp [number, nextAfter]
  | cons x r ih =>
    obtain ⟨n, v⟩ := x
    cases v with
    | none => simp [number, nextAfter, ih]
    | some v => simp [number, nextAfter, ih]

/-- the counter is one more than the highest value assigned (from a non-first position with counter `next`
    above everything before) -/
theorem counter_is_max_succ (next : Int) (l : List (String × Option Int)) :
    (∀ p ∈ number next false l, p.2 < (nextAfter next false l).1) ∧ next ≤ (nextAfter next false l).1 := by
  induction l generalizing next with
  | nil => simp [number, nextAfter]
  | cons x r ih =>
    obtain ⟨n, v⟩ := x
    cases v with
    | none =>
      simp only [number, nextAfter, List.mem_cons, forall_eq_or_imp]
      have := ih (next + 1)
      refine ⟨⟨by omega, this.1⟩, by omega⟩
    | some v =>
      simp only [number, nextAfter, Bool.false_or, List.mem_cons, forall_eq_or_imp]
      by_cases hv : v ≥ next
      · simp only [hv, decide_true, if_true]
        have := ih (v + 1)
        refine ⟨⟨by omega, this.1⟩, by omega⟩
      · simp only [hv, decide_false, Bool.false_eq_true, if_false]
        have := ih next
        refine ⟨⟨by omega, this.1⟩, this.2⟩

/-- **a missing value is 0 for the first entry** -/
theorem first_missing_is_zero (n : String) (r : List (String × Option Int)) :
    (numberAll ((n, none) :: r)).head? = some (n, 0) := by simp [numberAll, number]

/-- **a stated value is kept**, wherever it stands -/
theorem stated_value_kept (pre post : List (String × Option Int)) (n : String) (v : Int) :
    (n, v) ∈ numberAll (pre ++ (n, some v) :: post) := by
  simp only [numberAll, number_append, List.mem_append]
  right; simp [number]

/-- **a missing value after the first entry is one more than the highest value so far**: it exceeds every
    value numbered before it, and it is the least such number the counter rule yields (the counter itself) -/
theorem missing_value_exceeds_all_before (x : String × Option Int) (pre post : List (String × Option Int)) (n : String) :
    ∃ v, (n, v) ∈ numberAll (x :: pre ++ (n, none) :: post) ∧ ∀ p ∈ numberAll (x :: pre), p.2 < v := by
  obtain ⟨m, w⟩ := x
  have key : ∀ (nx : Int), ∃ v, (n, v) ∈ number nx false (pre ++ (n, none) :: post) ∧
      (∀ p ∈ number nx false pre, p.2 < v) ∧ nx ≤ v := by
    intro nx
    refine ⟨(nextAfter nx false pre).1, ?_, (counter_is_max_succ nx pre).1, (counter_is_max_succ nx pre).2⟩
    rw [number_append]
    have h2 : (nextAfter nx false pre).2 = false := by
      have : ∀ (nx : Int) (l : List (String × Option Int)), (nextAfter nx false l).2 = false := by
        intro nx l
        induction l generalizing nx with
        | nil => rfl
        | cons y r ih => obtain ⟨a, b⟩ := y; cases b <;> simp [nextAfter, ih]
      exact this nx pre
    simp [h2, number]
  cases w with
  | none =>
    obtain ⟨v, hv, hlt, hle⟩ := key 1
    refine ⟨v, ?_, ?_⟩
    · simp only [numberAll, List.cons_append, number, List.mem_cons]; right; simpa using hv
    · intro p hp
      simp only [numberAll, number, List.mem_cons] at hp
      rcases hp with rfl | hp
      · simp; omega
      · exact hlt p (by simpa using hp)
  | some w =>
    obtain ⟨v, hv, hlt, hle⟩ := key (w + 1)
    refine ⟨v, ?_, ?_⟩
    · simp only [numberAll, List.cons_append, number, Bool.true_or, if_true, List.mem_cons]; right; exact hv
    · intro p hp
      simp only [numberAll, number, Bool.true_or, if_true, List.mem_cons] at hp
      rcases hp with rfl | hp
      · simp; omega
      · exact hlt p hp

/-! ### default, units, scoping, restrictions -/

/-- **a mandatory leaf (a leaf-list with min-elements above 0) does not take the default of its type** -/
theorem required_leaf_no_type_default (mods : List (String × List Typedef)) (fuel : Nat) (chain : List (List Typedef)) (t : TExpr)
    (uu : Option String) (e : Eff) (h : leafEff mods fuel chain t none uu true = some e) : e.dflt = none := by
  unfold leafEff at h
  cases hd : derive mods fuel chain t with
  | none => simp [hd] at h
  | some x =>
    cases x
    simp [hd] at h
    subst h
    rfl

/-- **what the leaf states wins** over anything the typedef chain gives -/
theorem leaf_statement_wins (mods : List (String × List Typedef)) (fuel : Nat) (chain : List (List Typedef)) (t : TExpr)
    (d u : String) (du uu : Option String) (e : Eff) (h : leafEff mods fuel chain t (some d) uu = some e) :
    e.dflt = some d := by
  unfold leafEff at h
  cases hd : derive mods fuel chain t with
  | none => simp [hd] at h
  | some x =>
    cases x
    simp [hd] at h
    subst h
    simp [Eff.dflt]

/-- **lexical scoping**: the innermost enclosing scope that defines the name wins, and the typedef's own type
    statement is read in the scopes enclosing the typedef, not those of the leaf that uses it -/
theorem inner_scope_shadows (n : String) (s : List Typedef) (outer : List (List Typedef)) (t : Typedef)
    (h : findIn n s = some t) : lookupTd n (s :: outer) = some (t, s :: outer) := by
  simp [lookupTd, h]

theorem outer_scope_when_not_local (n : String) (s : List Typedef) (outer : List (List Typedef))
    (h : findIn n s = none) : lookupTd n (s :: outer) = lookupTd n outer := by
  simp [lookupTd, h]

/-! #### non-vacuity -/
example : numberAll [("zero", none), ("five", some 5), ("six", none), ("neg", some (-3)), ("seven", none), ("nul", some 0), ("eight", none)] =
    [("zero", 0), ("five", 5), ("six", 6), ("neg", -3), ("seven", 7), ("nul", 0), ("eight", 8)] := by decide
example : restrictBy [("a", 0), ("b", 7), ("c", 8)] [("c", none), ("a", none)] = [("c", some 8), ("a", some 0)] := by decide

end YangVerif.C02
