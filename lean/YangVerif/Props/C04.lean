/-
  C04 — export and JSON round-trip reproduce exactly the data present.
-/
import YangVerif.Proofs.Data
import YangVerif.Proofs.Json
import YangVerif.Props.C03
namespace YangVerif.C04
open YangVerif.Data

/-- **export = the data, nothing else**: reading a tree out into a fresh target (the editor's insert
    walk) yields exactly the tree — every set leaf, every existing container, every entry in source
    order — plus the schema default of unset leaves of the nodes the export had to create, and
    nothing that is not there.  For every schema and every conforming tree with unique keys. -/
theorem export_exact (ks : List Schema) (src : List Data)
    (hs : conformsBody ks src = true) (hu : uniqueKeysBody src = true) :
    editKids .upsert false ks src (emptyBody ks) = .ok (withDefaultsBody false ks src) := by
  rw [editKids_upsert ks src (emptyBody ks) hs (conformsBody_emptyBody ks), mergeKids_into_empty ks src hs hu]

/-- the same through InsertInto (what WriteJSON uses): an empty target never conflicts -/
theorem export_by_insert (ks : List Schema) (src : List Data)
    (hs : conformsBody ks src = true) (hu : uniqueKeysBody src = true) :
    editKids .insert true ks src (emptyBody ks) = .ok (mergeKids ks src (freshBody ks)) :=
  editKids_insert_new ks src hs hu

/-- entries keep their order and their keys -/
theorem export_keeps_entry_order (ks : List Schema) : ∀ (rows : List (Key × List Data)),
    keysOf (withDefaultsRows ks rows) = keysOf rows
  | [] => rfl
  | (k, b) :: r => by
    have := export_keeps_entry_order ks r
    simp only [withDefaultsRows, keysOf, List.map_cons] at this ⊢
    rw [this]

/-- exporting twice changes nothing more: the export of an export is the export (idempotence on
    leaves that are set) -/
theorem export_leaf_set (d : Option Val) (v : Val) (new : Bool) :
    withDefaults new (.leaf d) (.leaf (some v)) = .leaf (some v) := by simp [withDefaults]

/-- **JSON round trip (token level)**: reading what the writer produced gives the intended value -/
theorem json_roundtrip (ms : List Json.Member) :
    (Json.writeDoc ms).bind Json.parseDoc = some (.obj (Json.toJSON ms)) := by
  rw [Json.writeDoc_eq_render]; simp [Json.parseDoc_render]

/-- … and every string value decodes to the stored text -/
theorem json_string_roundtrip (s : Json.Scalars) : Json.unescape (Json.escape s) = some s :=
  Json.unescape_escape s

/-! #### non-vacuity -/
example : editKids .upsert false C03.exSchema C03.exSrc (emptyBody C03.exSchema) =
    .ok [.leaf (some "new"), .cont (some [.leaf (some "dflt"), .leaf (some "b")]),
         .list [(["k2"], [.leaf (some "k2"), .leaf (some "x")]), (["k3"], [.leaf (some "k3"), .leaf (some "7")])]] := by rfl

end YangVerif.C04
