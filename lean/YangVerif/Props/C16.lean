/-
  C16 — when, where and filter hide exactly what their expression excludes.
-/
import YangVerif.Proofs.XPath
namespace YangVerif.C16
open YangVerif.XP

/-- **a leaf without a value satisfies no comparison**, whatever the operator — `!=` included -/
theorem unset_never_holds (op : Op) (lit : V) : evalCmp op none lit = false := rfl

/-- **integers of every type compare numerically**: all widths, signed and unsigned, are mathematical
    integers here; each operator is the mathematical relation -/
theorem int_comparison_exact (a b : Int) :
    evalCmp .eq (some (.int a)) (.int b) = decide (a = b) ∧
    evalCmp .ne (some (.int a)) (.int b) = decide (a ≠ b) ∧
    evalCmp .lt (some (.int a)) (.int b) = decide (a < b) ∧
    evalCmp .le (some (.int a)) (.int b) = decide (a ≤ b) ∧
    evalCmp .gt (some (.int a)) (.int b) = decide (a > b) ∧
    evalCmp .ge (some (.int a)) (.int b) = decide (a ≥ b) := by
  simp only [evalCmp, ord, holds]
  refine ⟨compare_int_eq a b, ?_, compare_int_lt a b, ?_, compare_int_gt a b, ?_⟩
  · have := compare_int_eq a b
    cases h : compare a b <;> simp_all
  · have h1 := compare_int_gt a b
    cases h : compare a b <;> simp_all <;> omega
  · have h1 := compare_int_lt a b
    cases h : compare a b <;> simp_all <;> omega

/-- decimal64 values of one leaf are integers scaled by the same power of ten: same order -/
theorem dec_comparison_exact (a b : Int) (op : Op) :
    evalCmp op (some (.dec a)) (.dec b) = evalCmp op (some (.int a)) (.int b) := rfl

/-- strings compare by their characters, booleans by truth value, enumerations by name for (in)equality -/
theorem str_eq_exact (a b : String) : evalCmp .eq (some (.str a)) (.str b) = decide (a = b) := by
  simp only [evalCmp, ord, holds]
  by_cases h : a = b
  · subst h; simp [Std.LawfulEqOrd.compare_eq_iff_eq]
  · have : compare a b ≠ .eq := fun hc => h (Std.LawfulEqOrd.compare_eq_iff_eq.mp hc)
    cases hc : compare a b <;> simp_all
theorem bool_eq_exact (a b : Bool) : evalCmp .eq (some (.bool a)) (.bool b) = decide (a = b) := by
  cases a <;> cases b <;> rfl
theorem enum_eq_exact (a b : String) :
    evalCmp .eq (some (.enum a)) (.enum b) = decide (a = b) ∧ evalCmp .ne (some (.enum a)) (.enum b) = decide (a ≠ b) := by
  simp only [evalCmp, ord, holds]
  by_cases h : a = b
  · subst h; simp
  · simp [h]

/-- the six operators are one order read six ways: `!=` negates `=`, `<=` is `<` or `=`, `>` negates `<=` … -/
theorem operators_consistent (a lit : V) :
    evalCmp .ne (some a) lit = (!evalCmp .eq (some a) lit) ∧
    evalCmp .le (some a) lit = (evalCmp .lt (some a) lit || evalCmp .eq (some a) lit) ∧
    evalCmp .ge (some a) lit = (evalCmp .gt (some a) lit || evalCmp .eq (some a) lit) := by
  simp only [evalCmp]
  cases h : ord a lit with
  | none => decide
  | some o => simp [holds_ne, holds_le, holds_ge]

/-- **values of different kinds** (a union leaf holding its other member type): not equal, not ordered -/
theorem other_kind_only_differs (a lit : V) (h : ord a lit = none) (op : Op) :
    evalCmp op (some a) lit = decide (op = .ne) := by
  simp only [evalCmp, h]
  cases op <;> rfl

example : evalCmp .ne (some (.str "none")) (.int 10) = true ∧ evalCmp .eq (some (.str "none")) (.int 10) = false ∧
    evalCmp .lt (some (.str "none")) (.int 10) = false ∧ evalCmp .ge (some (.int 5)) (.str "x") = false := by decide

/-- **a path through a list holds iff it holds for some entry** -/
theorem list_step_iff_exists (n : String) (rest : List String) (cmp : Option (Op × V)) (ss : List S) (ds : List D)
    (ln : String) (cs : List Cond) (ks : List S) (rows : List (List D)) (hrest : rest ≠ [])
    (hl : lookup n ss ds = some (.list ln cs ks, .list rows)) :
    resolve (n :: rest) cmp ss ds = true ↔ ∃ r ∈ rows, resolve rest cmp ks r = true := by
  have hne : rest.isEmpty = false := by cases rest <;> simp at hrest ⊢
  simp only [resolve, hl, hne, Bool.false_eq_true, if_false, Bool.and_eq_true, Bool.not_eq_true', List.any_eq_true]
  constructor
  · rintro ⟨_, h⟩; exact h
  · rintro ⟨r, hr, h⟩
    refine ⟨?_, r, hr, h⟩
    cases rows <;> simp at hr ⊢

/-- **when true = no when**: if every condition of every node that is there holds, the read is the data -/
theorem when_true_is_transparent (ss : List S) (ds : List D) (h : allHoldKids ss ds ss ds = true) :
    readBody ss ds = ds := by
  simp only [readBody]; exact read_id_kids ss ds ss ds h

/-- **when false hides the node**: a leaf, a container with everything below it, a list entry -/
theorem when_false_hides (ss : List S) (ds : List D) :
    (∀ n cs v, condsHold cs ss ds ss ds = false → readNode ss ds (.leaf n cs) (.leaf v) = .leaf none) ∧
    (∀ n cs ks b, condsHold cs ks b ss ds = false → readNode ss ds (.cont n cs ks) (.cont (some b)) = .cont none) ∧
    (∀ n cs ks rows r, r ∈ rows → condsHold cs ks r ss ds = false →
        ∀ r', readNode ss ds (.list n cs ks) (.list rows) = .list r' → r'.length < rows.length ∨ rows.length = 0) := by
  refine ⟨fun n cs v h => by simp [readNode, h], fun n cs ks b h => by simp [readNode, h], ?_⟩
  intro n cs ks rows r hr h r' hr'
  simp only [readNode, D.list.injEq] at hr'
  subst hr'
  left
  simp only [List.length_map]
  have := List.length_filter_lt_length_iff_exists (p := fun r => condsHold cs ks r ss ds) (l := rows)
  apply this.2
  exact ⟨r, hr, by simp [h]⟩

/-- **where / filter keep exactly the entries / events for which the expression holds, in order** -/
theorem where_exact (e : Expr) (ks : List S) (rows : List (List D)) :
    (∀ r, r ∈ whereRows e ks rows ↔ r ∈ rows ∧ holdsIn e ks r = true) ∧ (whereRows e ks rows).Sublist rows := by
  refine ⟨fun r => by simp [whereRows, List.mem_filter], List.filter_sublist⟩

theorem filter_exact (e : Expr) (ks : List S) (events : List (List D)) :
    (∀ ev, ev ∈ filterEvents e ks events ↔ ev ∈ events ∧ holdsIn e ks ev = true) ∧ (filterEvents e ks events).Sublist events := by
  refine ⟨fun r => by simp [filterEvents, List.mem_filter], List.filter_sublist⟩

/-! #### non-vacuity -/
def exS : List S :=
  [.leaf "z" [], .leaf "w" [⟨⟨["z"], some (.gt, .int 10)⟩, false⟩],
   .list "l" [⟨⟨["n"], some (.lt, .int 100)⟩, false⟩] [.leaf "n" []],
   .leaf "f" [⟨⟨["l", "n"], some (.eq, .int 2)⟩, false⟩]]
def exD (z : Int) : List D := [.leaf (some (.int z)), .leaf (some (.str "W")), .list [[.leaf (some (.int 500))], [.leaf (some (.int 2))]], .leaf (some (.str "F"))]
example : readBody exS (exD 11) = [.leaf (some (.int 11)), .leaf (some (.str "W")), .list [[.leaf (some (.int 2))]], .leaf (some (.str "F"))] := by
  simp (config := { decide := true }) [readBody, readKids, readNode, condsHold, holdsIn, resolve, lookup, exS, exD, S.name, evalCmp, ord, holds]
example : readBody exS (exD 10) = [.leaf (some (.int 10)), .leaf none, .list [[.leaf (some (.int 2))]], .leaf (some (.str "F"))] := by
  simp (config := { decide := true }) [readBody, readKids, readNode, condsHold, holdsIn, resolve, lookup, exS, exD, S.name, evalCmp, ord, holds]
example : evalCmp .gt (some (.int 18446744073709551615)) (.int 9223372036854775808) = true := by decide

end YangVerif.C16
