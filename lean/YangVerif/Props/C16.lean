/-
  C16 — when, where and filter hide exactly what their expression excludes.
-/
import YangVerif.Proofs.XPath
namespace YangVerif.C16
open YangVerif.XP

/-- **a leaf without a value satisfies no comparison**, whatever the operator — `!=` included -/
theorem unset_never_holds (op : Op) (lit : V) : evalCmp op none lit = false := rfl

/-- **integers of every type compare numerically**: all widths, signed and unsigned, are mathematical
    integers here; each operator is the mathematical relation -/
theorem int_comparison_exact (a b : Int) :
    evalCmp .eq (some (.int a)) (.int b) = decide (a = b) ∧
    evalCmp .ne (some (.int a)) (.int b) = decide (a ≠ b) ∧
    evalCmp .lt (some (.int a)) (.int b) = decide (a < b) ∧
    evalCmp .le (some (.int a)) (.int b) = decide (a ≤ b) ∧
    evalCmp .gt (some (.int a)) (.int b) = decide (a > b) ∧
    evalCmp .ge (some (.int a)) (.int b) = decide (a ≥ b) := by
  simp only [evalCmp, ord, holds]
  refine ⟨compare_int_eq a b, ?_, compare_int_lt a b, ?_, compare_int_gt a b, ?_⟩
  · have := compare_int_eq a b
    cases h : compare a b <;> simp_all
  · have h1 := compare_int_gt a b
    cases h : compare a b <;> simp_all <;> omega
  · have h1 := compare_int_lt a b
    cases h : compare a b <;> simp_all <;> omega

/-- **numbers with a fraction compare as the numbers they denote**: a/10^s against b/10^t is decided on
    a·10^t against b·10^s, which is the same comparison with both sides multiplied by 10^(s+t) > 0 - nothing is
    rounded, and neither side has to be a value of the other's type (`u8 < 300`, `i32 > 1.5`) -/
theorem dec_comparison_exact (a b : Int) (s t : Nat) :
    evalCmp .eq (some (.dec a s)) (.dec b t) = decide (a * 10 ^ t = b * 10 ^ s) ∧
    evalCmp .lt (some (.dec a s)) (.dec b t) = decide (a * 10 ^ t < b * 10 ^ s) ∧
    evalCmp .gt (some (.dec a s)) (.dec b t) = decide (a * 10 ^ t > b * 10 ^ s) := by
  simp only [evalCmp, ord, holds]
  exact ⟨compare_int_eq _ _, compare_int_lt _ _, compare_int_gt _ _⟩

/-- an integer leaf against a literal with a fraction, and a decimal leaf against a whole literal -/
theorem int_dec_comparison_exact (a b : Int) (t : Nat) (op : Op) :
    evalCmp op (some (.int a)) (.dec b t) = evalCmp op (some (.dec a 0)) (.dec b t) ∧
    evalCmp op (some (.dec b t)) (.int a) = evalCmp op (some (.dec b t)) (.dec a 0) := by
  simp [evalCmp, ord]

/-- values of one decimal64 leaf (one scale) order like their scaled integers -/
theorem dec_same_scale (a b : Int) (s : Nat) :
    evalCmp .lt (some (.dec a s)) (.dec b s) = decide (a < b) ∧ evalCmp .eq (some (.dec a s)) (.dec b s) = decide (a = b) := by
  have hp : (0 : Int) < 10 ^ s := Int.pow_pos (by decide)
  have h1 := (dec_comparison_exact a b s s).2.1
  have h0 := (dec_comparison_exact a b s s).1
  rw [h1, h0]
  constructor
  · by_cases h : a < b
    · simp [h, Int.mul_lt_mul_of_pos_right h hp]
    · have : ¬ a * 10 ^ s < b * 10 ^ s := fun hc => h (Int.lt_of_mul_lt_mul_right hc (Int.le_of_lt hp))
      simp [h, this]
  · by_cases h : a = b
    · simp [h]
    · have : ¬ a * 10 ^ s = b * 10 ^ s := fun hc => h (Int.eq_of_mul_eq_mul_right (Int.ne_of_gt hp) hc)
      simp [h, this]

example : evalCmp .lt (some (.int 200)) (.int 300) = true ∧ evalCmp .gt (some (.int 2)) (.dec 15 1) = true ∧
    evalCmp .lt (some (.int 2)) (.dec 25 1) = true ∧ evalCmp .eq (some (.int 2)) (.dec 20 1) = true ∧
    evalCmp .gt (some (.dec 250 2)) (.int 2) = true ∧ evalCmp .eq (some (.dec 150 2)) (.dec 15 1) = true := by decide

/-- strings compare by their characters, booleans by truth value, enumerations by name for (in)equality -/
theorem str_eq_exact (a b : String) : evalCmp .eq (some (.str a)) (.str b) = decide (a = b) := by
  simp only [evalCmp, ord, holds]
  by_cases h : a = b
  · subst h; simp [Std.LawfulEqOrd.compare_eq_iff_eq]
  · have : compare a b ≠ .eq := fun hc => h (Std.LawfulEqOrd.compare_eq_iff_eq.mp hc)
    cases hc : compare a b <;> simp_all
theorem bool_eq_exact (a b : Bool) : evalCmp .eq (some (.bool a)) (.bool b) = decide (a = b) := by
  cases a <;> cases b <;> rfl
theorem enum_eq_exact (a b : String) :
    evalCmp .eq (some (.enum a)) (.enum b) = decide (a = b) ∧ evalCmp .ne (some (.enum a)) (.enum b) = decide (a ≠ b) := by
  simp only [evalCmp, ord, holds]
  by_cases h : a = b
  · subst h; simp
  · simp [h]

/-- the six operators are one order read six ways: `!=` negates `=`, `<=` is `<` or `=`, `>` negates `<=` … -/
theorem operators_consistent (a lit : V) :
    evalCmp .ne (some a) lit = (!evalCmp .eq (some a) lit) ∧
    evalCmp .le (some a) lit = (evalCmp .lt (some a) lit || evalCmp .eq (some a) lit) ∧
    evalCmp .ge (some a) lit = (evalCmp .gt (some a) lit || evalCmp .eq (some a) lit) := by
  simp only [evalCmp]
  cases h : ord a lit with
  | none => decide
  | some o => simp [holds_ne, holds_le, holds_ge]

/-- **values of different kinds** (a union leaf holding its other member type): not equal, not ordered -/
theorem other_kind_only_differs (a lit : V) (h : ord a lit = none) (op : Op) :
    evalCmp op (some a) lit = decide (op = .ne) := by
  simp only [evalCmp, h]
  cases op <;> rfl

example : evalCmp .ne (some (.str "none")) (.int 10) = true ∧ evalCmp .eq (some (.str "none")) (.int 10) = false ∧
    evalCmp .lt (some (.str "none")) (.int 10) = false ∧ evalCmp .ge (some (.int 5)) (.str "x") = false := by decide

/-- **a path through a list holds iff it holds for some entry** -/
theorem list_step_iff_exists (n : String) (rest : List String) (cmp : Option (Op × V)) (ss : List S) (ds : List D)
    (ln : String) (cs : List Cond) (ks : List S) (rows : List (List D)) (hrest : rest ≠ [])
    (hl : lookup n ss ds = some (.list ln cs ks, .list rows)) :
    resolve (n :: rest) cmp ss ds = true ↔ ∃ r ∈ rows, resolve rest cmp ks r = true := by
  have hne : rest.isEmpty = false := by cases rest <;> simp at hrest ⊢
  simp only [resolve, hl, hne, Bool.false_eq_true, if_false, Bool.and_eq_true, Bool.not_eq_true', List.any_eq_true]
  constructor
  · rintro ⟨_, h⟩; exact h
  · rintro ⟨r, hr, h⟩
    refine ⟨?_, r, hr, h⟩
    cases rows <;> simp at hr ⊢

/-- **when true = no when**: if every condition of every node that is there holds, the read is the data -/
theorem when_true_is_transparent (ss : List S) (ds : List D) (h : allHoldKids ss ds ss ds = true) :
    readBody ss ds = ds := by
  simp only [readBody]; exact read_id_kids ss ds ss ds h

/-- **when false hides the node**: a leaf, a container with everything below it, a list entry -/
theorem when_false_hides (ss : List S) (ds : List D) :
    (∀ n cs v, condsHold cs ss ds ss ds = false → readNode ss ds (.leaf n cs) (.leaf v) = .leaf none) ∧
    (∀ n cs ks b, condsHold cs ks b ss ds = false → readNode ss ds (.cont n cs ks) (.cont (some b)) = .cont none) ∧
    (∀ n cs ks rows r, r ∈ rows → condsHold cs ks r ss ds = false →
        ∀ r', readNode ss ds (.list n cs ks) (.list rows) = .list r' → r'.length < rows.length ∨ rows.length = 0) := by
  refine ⟨fun n cs v h => by simp [readNode, h], fun n cs ks b h => by simp [readNode, h], ?_⟩
  intro n cs ks rows r hr h r' hr'
  simp only [readNode, D.list.injEq] at hr'
  subst hr'
  left
  simp only [List.length_map]
  have := List.length_filter_lt_length_iff_exists (p := fun r => condsHold cs ks r ss ds) (l := rows)
  apply this.2
  exact ⟨r, hr, by simp [h]⟩

/-- **where / filter keep exactly the entries / events for which the expression holds, in order** -/
theorem where_exact (e : Expr) (ks : List S) (rows : List (List D)) :
    (∀ r, r ∈ whereRows e ks rows ↔ r ∈ rows ∧ holdsIn e ks r = true) ∧ (whereRows e ks rows).Sublist rows := by
  refine ⟨fun r => by simp [whereRows, List.mem_filter], List.filter_sublist⟩

theorem filter_exact (e : Expr) (ks : List S) (events : List (List D)) :
    (∀ ev, ev ∈ filterEvents e ks events ↔ ev ∈ events ∧ holdsIn e ks ev = true) ∧ (filterEvents e ks events).Sublist events := by
  refine ⟨fun r => by simp [filterEvents, List.mem_filter], List.filter_sublist⟩

/-! #### non-vacuity -/
def exS : List S :=
  [.leaf "z" [], .leaf "w" [⟨⟨["z"], some (.gt, .int 10)⟩, false⟩],
   .list "l" [⟨⟨["n"], some (.lt, .int 100)⟩, false⟩] [.leaf "n" []],
   .leaf "f" [⟨⟨["l", "n"], some (.eq, .int 2)⟩, false⟩]]
def exD (z : Int) : List D := [.leaf (some (.int z)), .leaf (some (.str "W")), .list [[.leaf (some (.int 500))], [.leaf (some (.int 2))]], .leaf (some (.str "F"))]
example : readBody exS (exD 11) = [.leaf (some (.int 11)), .leaf (some (.str "W")), .list [[.leaf (some (.int 2))]], .leaf (some (.str "F"))] := by
  simp (config := { decide := true }) [readBody, readKids, readNode, condsHold, holdsIn, resolve, lookup, exS, exD, S.name, evalCmp, ord, holds]
example : readBody exS (exD 10) = [.leaf (some (.int 10)), .leaf none, .list [[.leaf (some (.int 2))]], .leaf (some (.str "F"))] := by
  simp (config := { decide := true }) [readBody, readKids, readNode, condsHold, holdsIn, resolve, lookup, exS, exD, S.name, evalCmp, ord, holds]
example : evalCmp .gt (some (.int 18446744073709551615)) (.int 9223372036854775808) = true := by decide

end YangVerif.C16
