/-
  C07 — query parameters return exactly the defined projection of the full read.
-/
import YangVerif.Model.Query
namespace YangVerif.C07
open YangVerif.Query

/-- first veto wins = every check passes -/
theorem firstVeto_eq_all (bs : List Bool) : firstVeto bs = bs.all id := by
  induction bs with
  | nil => rfl
  | cons b r ih => cases b <;> simp [firstVeto, ih]

end YangVerif.C07
