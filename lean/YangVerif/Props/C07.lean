/-
  C07 — query parameters return exactly the defined projection of the full read.

  Model: node/selection.go BuildConstraints + constraints.go (first veto in priority order) + the
  individual constraints, applied to a read of a data tree (`projTarget`, `projTargetList`).
-/
import YangVerif.Proofs.Query
namespace YangVerif.C07
open YangVerif.Query

/-- **every field-path expression means what the grammar says**: for every expression — nested paths,
    alternatives, groups anywhere in a path (also first, also followed by more), any nesting — the
    parser (`parsex`, with its three list operations) returns exactly the paths the expression
    denotes, in order -/
theorem path_expression_meaning (e : List (List Atom)) : parseExpr (renderAlts e) = some (denoteAlts e) :=
  parseExpr_eq_denote e

/-- **the matcher is the prefix relation**: a node is *selected* by a path iff the path is a beginning
    (or all) of the node's path below the target; it *leads to* it iff it is a proper beginning of it.
    (The index walk from the end of the candidate, for paths of any lengths — the shorter-candidate
    case is the one that used to panic.) -/
theorem selected_iff_prefix (segs rel : Path) : selected segs rel = true ↔ segs <+: rel := selected_iff segs rel
theorem leadsTo_iff_proper_prefix (segs rel : Path) :
    leadsTo segs rel = true ↔ (rel <+: segs ∧ rel.length < segs.length) := leadsTo_iff segs rel

/-- **combining parameters gives the intersection**: the checks run in priority order and the first veto
    wins, which is the conjunction of the four single-parameter conditions, in any order -/
theorem visible_is_conjunction (q : Query) (isLeaf cfg : Bool) (rel : Path) :
    visible q isLeaf cfg rel = (depthOK q rel && fieldsOK q rel && xfieldsOK q rel && contentOK q isLeaf cfg) := by
  unfold visible
  rw [firstVeto_eq_all]
  simp [preChecks, Bool.and_assoc]

/-- `fields`: visible iff some named path is a beginning of the node's path (the node is named or lies
    below a named node) or the node's path is a proper beginning of a named path (it lies on the way) -/
theorem fields_visible_iff (ps : List Path) (isLeaf cfg : Bool) (rel : Path) (hne : ps ≠ []) (hseg : ∀ p ∈ ps, p ≠ []) :
    visible { fields := some ps } isLeaf cfg rel = true ↔
      ∃ p ∈ ps, p <+: rel ∨ (rel <+: p ∧ rel.length < p.length) := by
  rw [visible_is_conjunction]
  have hE : ps.isEmpty = false := by cases ps <;> simp at hne ⊢
  simp only [depthOK, fieldsOK, xfieldsOK, contentOK, Bool.true_and, Bool.and_true, Bool.or_eq_true, pathMatches,
    pathLeadsTo, hE, Bool.false_or, List.any_eq_true]
  constructor
  · rintro (⟨p, hp, h⟩ | ⟨p, hp, h⟩)
    · rcases h with h | h
      · have := hseg p hp; cases p <;> simp at h this
      · exact ⟨p, hp, Or.inl ((selected_iff p rel).1 h)⟩
    · exact ⟨p, hp, Or.inr ((leadsTo_iff p rel).1 h)⟩
  · rintro ⟨p, hp, h | h⟩
    · exact Or.inl ⟨p, hp, Or.inr ((selected_iff p rel).2 h)⟩
    · exact Or.inr ⟨p, hp, (leadsTo_iff p rel).2 h⟩

/-- `fc.xfields`: hidden iff some named path is a beginning of the node's path -/
theorem xfields_hidden_iff (ps : List Path) (isLeaf cfg : Bool) (rel : Path) (hne : ps ≠ []) (hseg : ∀ p ∈ ps, p ≠ []) :
    visible { xfields := some ps } isLeaf cfg rel = false ↔ ∃ p ∈ ps, p <+: rel := by
  rw [visible_is_conjunction]
  have hE : ps.isEmpty = false := by cases ps <;> simp at hne ⊢
  simp only [depthOK, fieldsOK, xfieldsOK, contentOK, Bool.true_and, Bool.and_true, Bool.not_eq_false', pathMatches, hE,
    Bool.false_or, List.any_eq_true, Bool.or_eq_true]
  constructor
  · rintro ⟨p, hp, h | h⟩
    · have := hseg p hp; cases p <;> simp at h this
    · exact ⟨p, hp, (selected_iff p rel).1 h⟩
  · rintro ⟨p, hp, h⟩
    exact ⟨p, hp, Or.inr ((selected_iff p rel).2 h)⟩

/-- `content`: config keeps config nodes; nonconfig keeps non-config leaves and every container -/
theorem content_visible (isLeaf cfg : Bool) (rel : Path) :
    visible { content := .config } isLeaf cfg rel = cfg ∧
    visible { content := .nonconfig } isLeaf cfg rel = (if isLeaf then !cfg else true) := by
  constructor <;> simp [visible_is_conjunction, depthOK, fieldsOK, xfieldsOK, contentOK]

/-- **`depth=n` keeps exactly the nodes at most n levels below the target** — for every schema and tree,
    a list and its entries counting as one level, defaults of created nodes included -/
theorem depth_exact (n : Nat) (ks : List QS) (b : List QD) :
    projTarget { depth := some n } ks b = cutBody n false ks b :=
  proj_depth_body ks b n false [] n (by simp)

/-- **`with-defaults=trim`**: a leaf is left out exactly when it is unset or equals its default -/
theorem trim_exact (d x : Val) :
    trimmed { trim := true } (some d) (some x) = (if x = d then none else some x) ∧
    trimmed { trim := true } none (some x) = some x ∧
    (∀ dv v, trimmed { trim := false } dv v = v) := by
  refine ⟨by simp [trimmed], by simp [trimmed], fun dv v => by simp [trimmed]⟩

/-- **`fc.range=sel!s-e`**: of a list the selector names exactly, rows s..e (both included, in order);
    of every other list — also one nested in the entries of a named list — all rows -/
theorem range_rows (ps : List Path) (s : Nat) (e : Option Nat) (rel : Path) (rows : List α) :
    window { range := some (ps, s, e) } rel rows =
      if pathMatchesExactly ps rel then
        (match e with | none => rows.drop s | some e => (rows.drop s).take (e + 1 - s))
      else rows := by
  simp only [window]
  split <;> rfl

/-- … and a selector path names a list exactly iff it equals the list's path below the target -/
theorem exact_iff (ps : List Path) (rel : Path) (hne : ps ≠ []) :
    pathMatchesExactly ps rel = true ↔ rel ∈ ps := by
  have hE : ps.isEmpty = false := by cases ps <;> simp at hne ⊢
  simp only [pathMatchesExactly, hE, Bool.false_eq_true, if_false, List.any_eq_true, Bool.and_eq_true, beq_iff_eq]
  constructor
  · rintro ⟨p, hp, hl, hs⟩
    have := (selected_iff p rel).1 hs
    have := List.IsPrefix.eq_of_length this hl
    subst this; exact hp
  · intro h; exact ⟨rel, h, rfl, (selected_iff rel rel).2 (List.prefix_refl _)⟩

/-- **a constrained read is a part of the unconstrained read**: whatever the parameters, every value
    returned is the value of the full read, every container returned is one of the full read with part
    of its content, the rows returned are a contiguous run of the rows in order — nothing is invented,
    altered or reordered -/
theorem constrained_part_of_full (q : Query) (ks : List QS) (b : List QD) :
    SubBody ks (projTarget q ks b) (projTarget noQ ks b) := proj_sub_body q ks b false []

/-! #### non-vacuity / the expressions the pinned tree got wrong -/
example : parseExpr [.lp, .seg "a", .semi, .seg "b", .rp, .seg "c"] = some [["a", "c"], ["b", "c"]] := by decide
example : parseExpr [.seg "a", .semi, .lp, .seg "b", .semi, .seg "c", .rp] = some [["a"], ["b"], ["c"]] := by decide
example : parseExpr [.seg "a", .slash, .seg "b", .slash, .seg "c", .slash, .lp, .seg "x", .semi, .seg "y", .rp] =
    some [["a", "b", "c", "x"], ["a", "b", "c", "y"]] := by decide
example : parseExpr [.seg "a", .lp, .seg "b"] = none ∧ parseExpr [.seg "a", .rp, .seg "b"] = none := by decide
example : denoteAlts [[.seg "a", .group [[.seg "b"], [.seg "c", .seg "d"]], .seg "e"], [.seg "f"]] =
    [["a", "b", "e"], ["a", "c", "d", "e"], ["f"]] := by decide
example : visible { fields := some [["a", "c"]] } false true ["a"] = true ∧
          visible { fields := some [["a", "c"]] } true true ["a", "b"] = false ∧
          visible { fields := some [["a", "c"]] } true true ["a", "c", "d"] = true := by decide
example : window { range := some ([["l"]], 1, some 2) } ["l"] [10, 11, 12, 13] = [11, 12] ∧
          window { range := some ([["l"]], 1, some 2) } ["l", "m"] [10, 11, 12, 13] = [10, 11, 12, 13] ∧
          window { range := some ([["l"]], 3, some 1) } ["l"] [10, 11, 12, 13] = [] := by decide

end YangVerif.C07
