/-
  C07 — query parameters return exactly the defined projection of the full read.

  Model: node/selection.go BuildConstraints + constraints.go (first veto in priority order) + the
  individual constraints, applied to a read of a data tree (`projTarget`, `projTargetList`).
-/
import YangVerif.Proofs.Query
import YangVerif.Proofs.Window
namespace YangVerif.C07
open YangVerif.Query

/-- **every field-path expression means what the grammar says**: for every expression — nested paths,
    alternatives, groups anywhere in a path (also first, also followed by more), any nesting — the
    parser (`parsex`, with its three list operations) returns exactly the paths the expression
    denotes, in order -/
theorem path_expression_meaning (e : List (List Atom)) : parseExpr (renderAlts e) = some (denoteAlts e) :=
  parseExpr_eq_denote e

/-- **the matcher is the prefix relation**: a node is *selected* by a path iff the path is a beginning
    (or all) of the node's path below the target; it *leads to* it iff it is a proper beginning of it.
    (The index walk from the end of the candidate, for paths of any lengths — the shorter-candidate
    case is the one that used to panic.) -/
theorem selected_iff_prefix (segs rel : Path) : selected segs rel = true ↔ segs <+: rel := selected_iff segs rel
theorem leadsTo_iff_proper_prefix (segs rel : Path) :
    leadsTo segs rel = true ↔ (rel <+: segs ∧ rel.length < segs.length) := leadsTo_iff segs rel

/-- **combining parameters gives the intersection**: the checks run in priority order and the first veto
    wins, which is the conjunction of the four single-parameter conditions, in any order -/
theorem visible_is_conjunction (q : Query) (isLeaf cfg : Bool) (rel : Path) :
    visible q isLeaf cfg rel = (depthOK q rel && fieldsOK q rel && xfieldsOK q rel && contentOK q isLeaf cfg) := by
  unfold visible
  rw [firstVeto_eq_all]
  simp [preChecks, Bool.and_assoc]

/-- `fields`: visible iff some named path is a beginning of the node's path (the node is named or lies
    below a named node) or the node's path is a proper beginning of a named path (it lies on the way) -/
theorem fields_visible_iff (ps : List Path) (isLeaf cfg : Bool) (rel : Path) (hne : ps ≠ []) (hseg : ∀ p ∈ ps, p ≠ []) :
    visible { fields := some ps } isLeaf cfg rel = true ↔
      ∃ p ∈ ps, p <+: rel ∨ (rel <+: p ∧ rel.length < p.length) := by
  rw [visible_is_conjunction]
  have hE : ps.isEmpty = false := by cases ps <;> simp at hne ⊢
  simp only [depthOK, fieldsOK, xfieldsOK, contentOK, Bool.true_and, Bool.and_true, Bool.or_eq_true, pathMatches,
    pathLeadsTo, hE, Bool.false_or, List.any_eq_true]
  constructor
  · rintro (⟨p, hp, h⟩ | ⟨p, hp, h⟩)
    · rcases h with h | h
      · have := hseg p hp; cases p <;> simp at h this
      · exact ⟨p, hp, Or.inl ((selected_iff p rel).1 h)⟩
    · exact ⟨p, hp, Or.inr ((leadsTo_iff p rel).1 h)⟩
  · rintro ⟨p, hp, h | h⟩
    · exact Or.inl ⟨p, hp, Or.inr ((selected_iff p rel).2 h)⟩
    · exact Or.inr ⟨p, hp, (leadsTo_iff p rel).2 h⟩

/-- `fc.xfields`: hidden iff some named path is a beginning of the node's path -/
theorem xfields_hidden_iff (ps : List Path) (isLeaf cfg : Bool) (rel : Path) (hne : ps ≠ []) (hseg : ∀ p ∈ ps, p ≠ []) :
    visible { xfields := some ps } isLeaf cfg rel = false ↔ ∃ p ∈ ps, p <+: rel := by
  rw [visible_is_conjunction]
  have hE : ps.isEmpty = false := by cases ps <;> simp at hne ⊢
  simp only [depthOK, fieldsOK, xfieldsOK, contentOK, Bool.true_and, Bool.and_true, Bool.not_eq_false', pathMatches, hE,
    Bool.false_or, List.any_eq_true, Bool.or_eq_true]
  constructor
  · rintro ⟨p, hp, h | h⟩
    · have := hseg p hp; cases p <;> simp at h this
    · exact ⟨p, hp, (selected_iff p rel).1 h⟩
  · rintro ⟨p, hp, h⟩
    exact ⟨p, hp, Or.inr ((selected_iff p rel).2 h)⟩

/-- `content`: config keeps config nodes; nonconfig keeps non-config leaves and every container -/
theorem content_visible (isLeaf cfg : Bool) (rel : Path) :
    visible { content := .config } isLeaf cfg rel = cfg ∧
    visible { content := .nonconfig } isLeaf cfg rel = (if isLeaf then !cfg else true) := by
  constructor <;> simp [visible_is_conjunction, depthOK, fieldsOK, xfieldsOK, contentOK]

/-- **`depth=n` keeps exactly the nodes at most n levels below the target** — for every schema and tree,
    a list and its entries counting as one level, defaults of created nodes included -/
theorem depth_exact (n : Nat) (ks : List QS) (b : List QD) :
    projTarget { depth := some n } ks b = cutBody n false ks b :=
  proj_depth_body ks b n false [] n (by simp)

/-- **`with-defaults=trim`**: a leaf is left out exactly when it is unset or equals its default -/
theorem trim_exact (d x : Val) :
    trimmed { trim := true } (some d) (some x) = (if x = d then none else some x) ∧
    trimmed { trim := true } none (some x) = some x ∧
    (∀ dv v, trimmed { trim := false } dv v = v) := by
  refine ⟨by simp [trimmed], by simp [trimmed], fun dv v => by simp [trimmed]⟩

/-- **`fc.range=sel!s-e`**: of a list the selector names exactly, rows s..e (both included, in order);
    of every other list — also one nested in the entries of a named list — all rows -/
theorem range_rows (ps : List Path) (s : Nat) (e : Option Nat) (rel : Path) (rows : List α) :
    window { range := some (ps, s, e) } rel rows =
      if pathMatchesExactly ps rel then
        (match e with | none => rows.drop s | some e => (rows.drop s).take (e + 1 - s))
      else rows := by
  simp only [window]
  split <;> rfl

/-- … and a selector path names a list exactly iff it equals the list's path below the target -/
theorem exact_iff (ps : List Path) (rel : Path) (hne : ps ≠ []) :
    pathMatchesExactly ps rel = true ↔ rel ∈ ps := by
  have hE : ps.isEmpty = false := by cases ps <;> simp at hne ⊢
  simp only [pathMatchesExactly, hE, Bool.false_eq_true, if_false, List.any_eq_true, Bool.and_eq_true, beq_iff_eq]
  constructor
  · rintro ⟨p, hp, hl, hs⟩
    have := (selected_iff p rel).1 hs
    have := List.IsPrefix.eq_of_length this hl
    subst this; exact hp
  · intro h; exact ⟨rel, h, rfl, (selected_iff rel rel).2 (List.prefix_refl _)⟩

/-- **a constrained read is a part of the unconstrained read**: whatever the parameters, every value
    returned is the value of the full read, every container returned is one of the full read with part
    of its content, the rows returned are a contiguous run of the rows in order — nothing is invented,
    altered or reordered -/
theorem constrained_part_of_full (q : Query) (ks : List QS) (b : List QD) :
    SubBody ks (projTarget q ks b) (projTarget noQ ks b) := proj_sub_body q ks b false []

/-! ### the text of a `fc.range` window (Model/Window.lean: NewListRange behind the `!`) -/

section windowText
open YangVerif.Window YangVerif.Path

/-- **a window written as numbers is read as those numbers**: for every start row and end row a 64-bit
    integer can hold, `start-end` is read as (start, end) -/
theorem window_text_closed (s e : Nat) (hs : s < 2 ^ 63) (he : e < 2 ^ 63) :
    parseRows (digits s ++ 45 :: digits e) = some (Int.ofNat s, Int.ofNat e) := by
  unfold parseRows
  have hj : digits s ++ 45 :: digits e = join 45 [digits s, digits e] := by simp [join]
  rw [hj, splitOn_join 45 _ (by simp) (by
    intro x hx; simp at hx; rcases hx with rfl | rfl <;> exact digits_no_dash _)]
  have hne : (digits e).isEmpty = false := by
    cases hd : digits e with
    | nil => exact absurd hd (digits_spec e).2.2.1
    | cons _ _ => rfl
  simp [parseInt64_digits s hs, parseInt64_digits e he, hne]

/-- `start-` and `start` alone are open-ended -/
theorem window_text_open (s : Nat) (hs : s < 2 ^ 63) :
    parseRows (digits s ++ [45]) = some (Int.ofNat s, -1) ∧ parseRows (digits s) = some (Int.ofNat s, -1) := by
  constructor
  · unfold parseRows
    have hj : digits s ++ [45] = join 45 [digits s, []] := by simp [join]
    rw [hj, splitOn_join 45 _ (by simp) (by
      intro x hx; simp at hx; rcases hx with rfl | rfl
      · exact digits_no_dash _
      · simp)]
    simp [parseInt64_digits s hs]
  · unfold parseRows
    have hj : digits s = join 45 [digits s] := by simp [join]
    rw [hj, splitOn_join 45 _ (by simp) (by intro x hx; simp at hx; subst hx; exact digits_no_dash _)]
    simp [parseInt64_digits s hs]

/-- the whole parameter value `selector!start-end`, for every selector text without a `!` -/
theorem range_text (sel : Text) (hsel : (33 : Nat) ∉ sel) (s e : Nat) (hs : s < 2 ^ 63) (he : e < 2 ^ 63) :
    parseRange (sel ++ 33 :: (digits s ++ 45 :: digits e)) = some (sel, Int.ofNat s, Int.ofNat e) := by
  unfold parseRange
  have hsp : ∀ (a b : Text), (33 : Nat) ∉ a → splitFirst 33 (a ++ 33 :: b) = some (a, b) := by
    intro a b ha
    induction a with
    | nil => simp [splitFirst]
    | cons c r ih =>
      have hc : c ≠ 33 := fun h => ha (by simp [h])
      have hr : (33 : Nat) ∉ r := fun h => ha (List.mem_cons_of_mem _ h)
      simp [splitFirst, hc, ih hr]
  rw [hsp sel _ hsel]; simp only [window_text_closed s e hs he]; rfl

/-- **what an accepted window lets through**: rows start..end, both included, in order; nothing when the
    end lies before the start; everything from start on when there is no end -/
theorem window_rows (s e : Nat) (rows : List α) :
    rowsOf (Int.ofNat s) (Int.ofNat e) rows = if e < s then [] else (rows.drop s).take (e - s + 1) := by
  unfold rowsOf
  have h0 : ¬ ((s : Int) < 0) := by omega
  have h1 : ¬ ((e : Int) = -1) := by omega
  simp only [Int.ofNat_eq_natCast, h0, h1, if_false, Int.toNat_natCast]
  by_cases h : e < s
  · have h' : (e : Int) < (s : Int) := by omega
    simp only [h, h', if_true]
  · have h' : ¬ ((e : Int) < (s : Int)) := by omega
    have hsub : ((e : Int) - (s : Int)).toNat = e - s := by omega
    simp only [h, h', if_false, hsub]

theorem window_rows_open (s : Nat) (rows : List α) : rowsOf (Int.ofNat s) (-1) rows = rows.drop s := by
  unfold rowsOf
  have h0 : ¬ ((s : Int) < 0) := by omega
  simp only [Int.ofNat_eq_natCast, h0, if_false, Int.toNat_natCast, if_true]

/-! tests of the reader on texts a request may carry, labelled as tests -/
example : parseRows [49, 45, 50, 45, 51] = some (1, 2) := by decide            -- "1-2-3": what follows the end is not looked at
example : parseRows [49, 45, 45, 51] = some (1, -1) := by decide               -- "1--3": an empty second piece is "no end"
example : parseRows [45, 49, 45] = none := by decide                           -- "-1-": no start row
example : parseRows [] = none ∧ parseRows [120] = none ∧ parseRows [43] = none := by decide
example : parseRows [43, 52, 45, 43, 55] = some (4, 7) := by decide            -- "+4-+7"
example : parseRows [48, 48, 55] = some (7, -1) := by decide                   -- "007"
example : rowsOf 1 2 [10, 11, 12, 13] = [11, 12] ∧ rowsOf 3 1 [10, 11, 12, 13] = [] ∧ rowsOf 2 0 [10, 11, 12, 13] = [] ∧
    rowsOf 0 0 [10, 11, 12, 13] = [10] ∧ rowsOf 2 (-1) [10, 11, 12, 13] = [12, 13] ∧ rowsOf 9 (-1) [10, 11] = [] := by decide

end windowText

/-! #### non-vacuity / the expressions the pinned tree got wrong -/
example : parseExpr [.lp, .seg "a", .semi, .seg "b", .rp, .seg "c"] = some [["a", "c"], ["b", "c"]] := by decide
example : parseExpr [.seg "a", .semi, .lp, .seg "b", .semi, .seg "c", .rp] = some [["a"], ["b"], ["c"]] := by decide
example : parseExpr [.seg "a", .slash, .seg "b", .slash, .seg "c", .slash, .lp, .seg "x", .semi, .seg "y", .rp] =
    some [["a", "b", "c", "x"], ["a", "b", "c", "y"]] := by decide
example : parseExpr [.seg "a", .lp, .seg "b"] = none ∧ parseExpr [.seg "a", .rp, .seg "b"] = none := by decide
example : denoteAlts [[.seg "a", .group [[.seg "b"], [.seg "c", .seg "d"]], .seg "e"], [.seg "f"]] =
    [["a", "b", "e"], ["a", "c", "d", "e"], ["f"]] := by decide
example : visible { fields := some [["a", "c"]] } false true ["a"] = true ∧
          visible { fields := some [["a", "c"]] } true true ["a", "b"] = false ∧
          visible { fields := some [["a", "c"]] } true true ["a", "c", "d"] = true := by decide
example : window { range := some ([["l"]], 1, some 2) } ["l"] [10, 11, 12, 13] = [11, 12] ∧
          window { range := some ([["l"]], 1, some 2) } ["l", "m"] [10, 11, 12, 13] = [10, 11, 12, 13] ∧
          window { range := some ([["l"]], 3, some 1) } ["l"] [10, 11, 12, 13] = [] := by decide

end YangVerif.C07
