/-
  C13 — no request content can crash the library once the schema is valid.

  A theorem cannot exhibit a crash of the Go runtime; what it carries here is the shape verdict on JSON edit
  documents: `Shape.okBody` is total (every document of every shape gets a verdict) and the named
  disagreements between document and schema are all refused, at every schema position.  The rest of C13 is
  a search for crashing requests in a child process — partial, see DESIGN.md.
-/
import YangVerif.Model.Shape
namespace YangVerif.C13
open YangVerif.Shape YangVerif.Json

/-- **an object where a list is declared** is refused (as is any scalar) -/
theorem object_for_list_refused (n : String) (keys : List String) (kids : List SS) (ms : List (String × JVal)) :
    okNode (.list n keys kids) (.obj ms) = false := by simp [okNode]
theorem scalar_for_list_refused (n : String) (keys : List String) (kids : List SS) (v : JVal) (h : isScalar v = true) :
    okNode (.list n keys kids) v = false := by
  cases v <;> simp [okNode, isScalar] at h ⊢

/-- **a scalar, an array or null where a container is declared** is refused -/
theorem non_object_for_container_refused (n : String) (kids : List SS) (v : JVal) (h : ∀ ms, v ≠ .obj ms) :
    okNode (.cont n kids) v = false := by
  cases v with
  | obj ms => exact absurd rfl (h ms)
  | str s => simp [okNode]
  | num t => simp [okNode]
  | lit t => simp [okNode]
  | arr items => simp [okNode]

/-- **a list entry without (one of) its key(s)** is refused, wherever it stands in the array -/
theorem entry_without_key_refused (keys : List String) (kids : List SS) (before after : List JVal) (ms : List (String × JVal))
    (k : String) (hk : k ∈ keys) (hmiss : member k ms = none) :
    okEntries keys kids (before ++ .obj ms :: after) = false := by
  induction before with
  | nil =>
    simp only [List.nil_append, okEntries, Bool.and_eq_false_iff]
    left; left
    rw [List.all_eq_false]
    exact ⟨k, hk, by simp [hmiss]⟩
  | cons b r ih =>
    cases b with
    | obj ms' => simp only [List.cons_append, okEntries, ih, Bool.and_false]
    | str s => simp [okEntries]
    | num t => simp [okEntries]
    | lit t => simp [okEntries]
    | arr items => simp [okEntries]

/-- an object or an array of objects where a leaf is declared is refused -/
theorem object_for_leaf_refused (n : String) (isList : Bool) (ms : List (String × JVal)) :
    okNode (.leaf n isList) (.obj ms) = false := by
  cases isList <;> simp [okNode, isScalar, isNull]

/-- **a disagreement anywhere below refuses the whole document**: if the member for one schema child has the
    wrong shape, the body is refused whatever else it holds -/
theorem mismatch_propagates (s : SS) (pre post : List SS) (ms : List (String × JVal)) (v : JVal)
    (hm : member s.name ms = some v) (hbad : okNode s v = false) : okBody (pre ++ s :: post) ms = false := by
  induction pre with
  | nil => simp [okBody, hm, hbad]
  | cons p r ih => simp [okBody, ih]

/-- members the schema does not know are not looked at -/
theorem unknown_member_ignored (ss : List SS) (ms : List (String × JVal)) (n : String) (v : JVal)
    (h : ∀ s ∈ ss, s.name ≠ n) : okBody ss ((n, v) :: ms) = okBody ss ms := by
  induction ss with
  | nil => simp [okBody]
  | cons s r ih =>
    have hs : s.name ≠ n := h s (by simp)
    have : member s.name ((n, v) :: ms) = member s.name ms := by
      simp only [member]
      have : ¬ n = s.name := fun e => hs e.symm
      simp [this]
    simp only [okBody, this]
    rw [ih (fun s' hs' => h s' (by simp [hs']))]

/-! #### non-vacuity -/
def exSchema : List SS := [.leaf "a" false, .cont "c" [.leaf "x" true], .list "l" ["k"] [.leaf "k" false, .leaf "v" false]]
example : okBody exSchema [("a", .num "1"), ("c", .obj [("x", .arr [.str [49]])]), ("l", .arr [.obj [("k", .str [97])]]), ("zz", .obj [])] = true := by
  simp (config := { decide := true }) [okBody, okNode, okEntries, member, exSchema, SS.name, isScalar, isNull]
example : okBody exSchema [("l", .arr [.obj [("v", .num "1")]])] = false := by
  simp (config := { decide := true }) [okBody, okNode, okEntries, member, exSchema, SS.name, isScalar, isNull]
example : okBody exSchema [("c", .str [120])] = false := by
  simp (config := { decide := true }) [okBody, okNode, okEntries, member, exSchema, SS.name, isScalar, isNull]



/- ---- request paths -/

/-- a refused prefix refuses the whole path: an error met on the way is not recovered from -/
theorem refused_prefix_refuses (cur : Option (List SS)) (p q : List Seg) (h : pathVerdict cur p = .refused) :
    pathVerdict cur (p ++ q) = .refused := by
  induction p generalizing cur with
  | nil => simp [pathVerdict] at h
  | cons sg rest ih =>
    cases cur with
    | none => simp [pathVerdict]
    | some kids =>
      simp only [List.cons_append, pathVerdict] at h ⊢
      cases hk : findKid sg.name kids with
      | none => simp
      | some s =>
        rw [hk] at h
        cases s with
        | leaf n l => simp only at h ⊢; split <;> simp_all
        | anyLeaf n => simp only at h ⊢; split <;> simp_all
        | cont n ks => simp only at h ⊢; split <;> simp_all
        | list n keys ks => simp only at h ⊢; split <;> simp_all

/-- **a step below a leaf** is refused, wherever the leaf stands -/
theorem step_below_leaf_refused (kids : List SS) (sg nxt : Seg) (rest : List Seg) (n : String) (l : Bool)
    (h : findKid sg.name kids = some (.leaf n l)) : pathVerdict (some kids) (sg :: nxt :: rest) = .refused := by
  simp only [pathVerdict, h]; split <;> rfl

/-- **a key on a non-list** (leaf or container) is refused -/
theorem key_on_leaf_refused (kids : List SS) (sg : Seg) (rest : List Seg) (n : String) (l : Bool)
    (h : findKid sg.name kids = some (.leaf n l)) (hk : sg.hasKey = true) : pathVerdict (some kids) (sg :: rest) = .refused := by
  simp [pathVerdict, h, hk]
theorem key_on_container_refused (kids : List SS) (sg : Seg) (rest : List Seg) (n : String) (ks : List SS)
    (h : findKid sg.name kids = some (.cont n ks)) (hk : sg.hasKey = true) : pathVerdict (some kids) (sg :: rest) = .refused := by
  simp [pathVerdict, h, hk]

/-- fewer key components than the list has keys is refused (the missing ones would be nil values) -/
theorem fewer_keys_refused (kids : List SS) (sg : Seg) (rest : List Seg) (n : String) (keys : List String) (ks : List SS)
    (h : findKid sg.name kids = some (.list n keys ks)) (hk : sg.hasKey = true) (hl : sg.keys.length < keys.length) :
    pathVerdict (some kids) (sg :: rest) = .refused := by
  have : sg.keys.length ≠ keys.length := by omega
  simp [pathVerdict, h, hk, this]

/-- surplus key components are refused too: dropping them would address another key than the one written -/
theorem more_keys_refused (kids : List SS) (sg : Seg) (rest : List Seg) (n : String) (keys : List String) (ks : List SS)
    (h : findKid sg.name kids = some (.list n keys ks)) (hk : sg.hasKey = true) (hl : keys.length < sg.keys.length) :
    pathVerdict (some kids) (sg :: rest) = .refused := by
  have : sg.keys.length ≠ keys.length := by omega
  simp [pathVerdict, h, hk, this]

/-- a name the level does not have is refused -/
theorem unknown_name_refused (kids : List SS) (sg : Seg) (rest : List Seg) (h : findKid sg.name kids = none) :
    pathVerdict (some kids) (sg :: rest) = .refused := by
  simp [pathVerdict, h]

example : pathVerdict (some [.cont "c" [.leaf "x" false], .list "l" ["a", "b"] [.leaf "a" false, .leaf "b" false]])
    [⟨"l", ["1"], true⟩] = .refused := by decide
example : pathVerdict (some [.cont "c" [.leaf "x" false], .list "l" ["a", "b"] [.leaf "a" false, .leaf "b" false]])
    [⟨"l", ["1", "2", "3"], true⟩, ⟨"a", [], false⟩] = .refused := by decide
example : pathVerdict (some [.cont "c" [.leaf "x" false], .list "l" ["a", "b"] [.leaf "a" false, .leaf "b" false]])
    [⟨"l", ["1", "2"], true⟩, ⟨"a", [], false⟩] = .ok := by decide
example : pathVerdict (some [.cont "c" [.leaf "x" false]]) [⟨"c", [], false⟩, ⟨"x", [], false⟩, ⟨"y", [], false⟩] = .refused := by decide
end YangVerif.C13
