/-
  C06 — nothing written in a module is lost or altered on the way into the schema.

  The unbounded part proved here is the reading of statement arguments: every text, written in any
  legal double- or single-quoted form and split into any number of `+`-joined pieces, with white space
  and comments anywhere around the pieces, is read back as exactly that text.  Statement-level
  fidelity (which accessor returns which argument) is carried by the correspondence.
-/
import YangVerif.Proofs.YangStr
namespace YangVerif.C06
open YangVerif.YStr

/-- **escapes**: every legal encoding of a text inside double quotes (each `"` and `\` escaped, line feed
    and tab escaped or literal) is delimited correctly by the scanner and decodes to the text -/
theorem dq_roundtrip (t e rest : Text) (h : Enc t e) :
    (scanDq (e ++ 34 :: rest)).map (fun (b, r) => (unescape b, r)) = some (t, rest) := by
  rw [scanDq_enc t e rest h]; simp [unescape_enc t e h]

/-- single quotes: the text as it stands, backslashes and double quotes included -/
theorem sq_roundtrip (t rest : Text) (h : 39 ∉ t) : scanSq (t ++ 39 :: rest) = some (t, rest) := scanSq_body t rest h

/-- **white space and comments anywhere between tokens** are skipped, whatever their number and mix -/
theorem separators_skipped (s : List SepItem) (rest : Text) (h : Stops rest) :
    skipWS (renderSep s ++ rest).length (renderSep s ++ rest) = rest := skipWS_sep_len s rest h

theorem piece_render_stops (p : Piece) (tail : Text) : Stops (p.render ++ tail) := by
  cases p <;> simp [Piece.render, Stops, isSpace]

/-- **any quoting, any `+` concatenation, any comment placement**: a statement argument written as one or
    more quoted pieces joined by `+`, with arbitrary separators around every `+` and behind the last
    piece, reads back as the concatenation of the pieces' texts, and the input continues right at the
    statement's `;` or `{` -/
theorem argument_roundtrip (ps : List (Piece × List SepItem × List SepItem)) (after : List SepItem) (rest : Text)
    (hne : ps ≠ []) (hrest : Stops rest) (hplus : ∀ r, rest ≠ 43 :: r) (f : Nat) (hf : ps.length ≤ f) :
    lexQuoted f (renderArg ps after rest) = some (argText ps, rest) := by
  induction ps generalizing f with
  | nil => exact absurd rfl hne
  | cons x r ih =>
    obtain ⟨p, s1, s2⟩ := x
    obtain ⟨f1, rfl⟩ : ∃ f1, f = f1 + 1 := ⟨f - 1, by simp at hf; omega⟩
    -- the first piece
    have hpiece : ∀ tail : Text, lexPiece (p.render ++ tail) = some (p.text, tail) := by
      intro tail
      cases p with
      | dq t e h =>
        simp only [Piece.render, Piece.text, List.cons_append, List.append_assoc, List.singleton_append, lexPiece]
        exact dq_roundtrip t e tail h
      | sq t h =>
        simp only [Piece.render, Piece.text, List.cons_append, List.append_assoc, List.singleton_append, lexPiece]
        exact sq_roundtrip t tail h
    cases r with
    | nil =>
      simp only [renderArg, argText, List.append_nil, List.append_assoc]
      rw [lexQuoted_succ]
      simp only [hpiece]
      rw [separators_skipped after rest hrest]
      match rest, hrest, hplus with
      | c :: r', _, hp =>
        have : c ≠ 43 := fun e => hp r' (by rw [e])
        split
        · rename_i heq; simp at heq; exact absurd heq.1 this
        · rfl
    | cons q r' =>
      simp only [renderArg, List.append_assoc, List.cons_append]
      rw [lexQuoted_succ]
      simp only [hpiece]
      have hs1 : Stops (43 :: (renderSep s2 ++ renderArg (q :: r') after rest)) := by simp [Stops, isSpace]
      rw [separators_skipped s1 _ hs1]
      simp only
      have hq : Stops (renderArg (q :: r') after rest) := by
        obtain ⟨qp, qs1, qs2⟩ := q
        cases r' with
        | nil => simp only [renderArg, List.append_assoc]; exact piece_render_stops qp _
        | cons q2 r2 => simp only [renderArg, List.append_assoc]; exact piece_render_stops qp _
      rw [separators_skipped s2 _ hq]
      have := ih (by simp) f1 (by simp at hf ⊢; omega)
      rw [this]
      simp [argText]

/-! #### non-vacuity -/
example : Enc [113, 34, 92, 10] [113, 92, 34, 92, 92, 92, 110] :=
  .cons (.plain 113 (by decide) (by decide)) (.cons .quote (.cons .backslash (.cons .newline .nil)))
example : lexQuoted 5 ([34, 97, 92, 34, 34] ++ [32, 47, 42, 32, 99, 32, 42, 47] ++ [43, 10] ++ [39, 98, 92, 39] ++ [32, 59]) =
    some ([97, 34, 98, 92], [59]) := by decide
example : skipWS 9 [47, 47, 32, 120, 10, 32, 59] = [59] := by decide
example : unescape [97, 92, 110, 92, 120, 92, 92] = [97, 10, 92, 120, 92] := by decide

end YangVerif.C06
