/-
  C06 — nothing written in a module is lost or altered on the way into the schema.
-/
namespace YangVerif.C06
theorem placeholder : True := trivial
end YangVerif.C06
