/-
  C01 — the compiled schema equals the RFC 7950 expansion of uses / augment / refine / include.

  `Expand.compile` is the specification (a private, refined, augmented copy per uses; module augments in
  textual order; config inherited from the nearest ancestor that states it).  The theorems say that the
  specification does not depend on how a schema is factored; the correspondence says that
  meta/resolver.go computes it.
-/
import YangVerif.Proofs.Expand
namespace YangVerif.C01
open YangVerif.Expand

/-- **factoring nodes out into a grouping changes nothing**: any run `mid` of sibling nodes may be moved
    into a new grouping `g` (a name used nowhere else) and replaced by `uses g`: every other expansion in
    the module is untouched and the uses yields exactly the expansion of the run, in place -/
theorem extract_grouping (g : String) (pre mid post : List N) (env : Env) (f : Nat)
    (henv : freshEnv g env = true) (hpre : freshL g pre = true) (hmid : freshL g mid = true) (hpost : freshL g post = true) :
    expandL ((g, mid) :: env) (f + 1) (pre ++ [.uses g [] []] ++ post) =
      expandL env (f + 1) pre ++ expandL env f mid ++ expandL env (f + 1) post := by
  rw [expandL_append, expandL_append]
  rw [fresh_all g mid env henv (f + 1) pre hpre, fresh_all g mid env henv (f + 1) post hpost]
  simp only [expandL, expandN, lookupG, if_true, List.foldl_nil, expandAugs, List.append_nil]
  rw [fresh_all g mid env henv f mid hmid]

/-- … so with enough fuel for the run itself the module expands exactly as with the nodes written inline -/
theorem extract_grouping_inline (g : String) (pre mid post : List N) (env : Env) (f : Nat)
    (henv : freshEnv g env = true) (hpre : freshL g pre = true) (hmid : freshL g mid = true) (hpost : freshL g post = true)
    (hfuel : expandL env f mid = expandL env (f + 1) mid) :
    expandL ((g, mid) :: env) (f + 1) (pre ++ [.uses g [] []] ++ post) = expandL env (f + 1) (pre ++ mid ++ post) := by
  rw [extract_grouping g pre mid post env f henv hpre hmid hpost, hfuel, expandL_append, expandL_append]

/-- **every uses gets its own copy**: what one uses refines or augments is invisible in any other uses of the
    same grouping — the expansion of siblings is the concatenation of their separate expansions -/
theorem copies_independent (env : Env) (f : Nat) (a b : List N) :
    expandL env f (a ++ b) = expandL env f a ++ expandL env f b := expandL_append env f a b

/-- **refines then augments, each in textual order** -/
theorem uses_order (env : Env) (f : Nat) (g : String) (body : List N) (refs : List (Path × P)) (augs : List (Path × List N))
    (h : lookupG g env = some body) :
    expandN env (f + 1) (.uses g refs augs) = expandAugs env f augs (refs.foldl applyRefine (expandL env f body)) := by
  simp [expandN, h]

theorem augments_in_textual_order (env : Env) (f : Nat) (a b : List (Path × List N)) (ts : List T) :
    expandAugs env f (a ++ b) ts = expandAugs env f b (expandAugs env f a ts) := by
  induction a generalizing ts with
  | nil => simp [expandAugs]
  | cons x r ih => obtain ⟨p, ks⟩ := x; simp [expandAugs, ih]

/-- a refine overrides exactly what it states -/
theorem refine_patch (base patch : P) :
    (base.patch patch).desc = (match patch.desc with | some d => some d | none => base.desc) ∧
    (base.patch patch).dflt = (match patch.dflt with | some d => some d | none => base.dflt) ∧
    (base.patch patch).mandatory = (match patch.mandatory with | some d => some d | none => base.mandatory) ∧
    (base.patch patch).config = (match patch.config with | some d => some d | none => base.config) ∧
    (base.patch patch).minEl = (match patch.minEl with | some d => some d | none => base.minEl) ∧
    (base.patch patch).maxEl = (match patch.maxEl with | some d => some d | none => base.maxEl) ∧
    (base.patch patch).presence = (match patch.presence with | some d => some d | none => base.presence) := by
  cases patch with
  | mk c d f m lo hi pr => cases c <;> cases d <;> cases f <;> cases m <;> cases lo <;> cases hi <;> cases pr <;> simp [P.patch]

/-- **config is inherited from the nearest ancestor that states it** -/
theorem config_inherited (cfg : Bool) (k : Kind) (n : String) (p : P) (kids : List T) :
    inherit cfg (.node k n p kids) =
      .node k n { p with config := some (p.config.getD cfg) } (inheritL (p.config.getD cfg) kids) := by
  simp [inherit]

theorem config_stated_wins (cfg c : Bool) (n : String) (p : P) (h : p.config = some c) :
    inherit cfg (.leaf n p) = .leaf n { p with config := some c } := by
  simp [inherit, h]

/-! #### non-vacuity -/
def exEnv : Env := [("g", [.leaf "a" {}, .node .cont "c" {} [.leaf "b" { dflt := some "x" }]])]
def exBody : List N :=
  [.node .cont "one" {} [.uses "g" [(["c", "b"], { dflt := some "y" })] []],
   .node .cont "two" { config := some false } [.uses "g" [] [(["c"], [.leaf "extra" {}])]]]
example : compile 3 ⟨exEnv, exBody, [(["one", "c"], [.leaf "late" {}])]⟩ =
    [.node .cont "one" { config := some true } [.leaf "a" { config := some true },
        .node .cont "c" { config := some true } [.leaf "b" { config := some true, dflt := some "y" }, .leaf "late" { config := some true }]],
     .node .cont "two" { config := some false } [.leaf "a" { config := some false },
        .node .cont "c" { config := some false } [.leaf "b" { config := some false, dflt := some "x" }, .leaf "extra" { config := some false }]]] := by
  simp (config := { decide := true }) [compile, expandModule, expandL, expandN, expandAugs, lookupG, exEnv, exBody, applyRefine,
    atPath, atKids, patchT, appendKids, P.patch, inherit, inheritL, T.name]
example : freshEnv "h" exEnv = true ∧ freshL "h" exBody = true := by decide

end YangVerif.C01
