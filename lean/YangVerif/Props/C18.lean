/-
  C18 — delete and replace remove exactly the addressed subtree; list keys stay unique.
-/
import YangVerif.Proofs.Data
import YangVerif.Props.C03
import YangVerif.Model.EntryKey
import YangVerif.Proofs.Find
set_option linter.unusedSimpArgs false
namespace YangVerif.C18
open YangVerif.Data

/-- deleting a list entry: a following lookup no longer finds it … -/
theorem delete_then_find_none (k : Key) (rows : List (Key × List Data)) (h : (keysOf rows).Nodup) :
    findRow k (removeRow k rows) = none := findRow_removeRow_self k rows h

/-- … and every other entry is found with its old content -/
theorem delete_frame_entries (k k' : Key) (h : k' ≠ k) (rows : List (Key × List Data)) :
    findRow k' (removeRow k rows) = findRow k' rows := findRow_removeRow_other k k' h rows

/-- deleting a container or a whole list: that child is gone, every sibling keeps its data -/
theorem delete_child_exact (ks : List Schema) (i : Nat) (s : Schema) (body : List Data) (hi : ks[i]? = some s) :
    (deleteChild ks i body)[i]? = (if i < body.length then some (emptyOf s) else none) ∧
    ∀ j, j ≠ i → (deleteChild ks i body)[j]? = body[j]? := by
  unfold deleteChild; simp only [hi]
  constructor
  · by_cases h : i < body.length <;> simp [h, List.getElem?_set]
  · intro j hj; simp [List.getElem?_set, Ne.symm hj]

/-- deleting an entry of the list that is child i touches no sibling of that list -/
theorem delete_row_frame_siblings (i : Nat) (k : Key) (body : List Data) :
    ∀ j, j ≠ i → (deleteRow i k body)[j]? = body[j]? := by
  intro j hj
  unfold deleteRow
  cases h : body[i]? with
  | none => rfl
  | some d => cases d <;> simp [List.getElem?_set, Ne.symm hj]

/-- **replace** leaves exactly the supplied content (with its defaults) at that location — the
    result does not depend on what was there — and every sibling untouched -/
theorem replace_exact (ks : List Schema) (i : Nat) (s : Schema) (d : Data) (body : List Data)
    (hi : ks[i]? = some s) (hd : conforms s d = true) (hu : uniqueKeys d = true)
    (hb : conformsBody ks body = true) :
    replaceChild ks i d body = .ok (body.set i (merge s d (emptyOf s))) :=
  replaceChild_exact ks i s d body hi hd hu hb

/-- **replace of a list entry** leaves exactly the supplied entry (with its defaults) under that key,
    nothing of the old entry, every other entry untouched -/
theorem replace_entry_exact (lks : List Schema) (k : Key) (b : List Data) (rows : List (Key × List Data))
    (hb : conformsBody lks b = true) (hn : (keysOf rows).Nodup) :
    editRows .insert lks [(k, b)] (removeRow k rows) =
      .ok (removeRow k rows ++ [(k, mergeKids lks b (freshBody lks))]) := by
  have hk : k ∉ keysOf (removeRow k rows) :=
    not_mem_of_findRow_none k _ (findRow_removeRow_self k rows hn)
  have := editRows_insert lks (fun ds h1 => editKids_upsert_new lks ds h1) [(k, b)] (removeRow k rows)
    (by simp [conformsRows, hb]) (by intro k' hk'; simp [keysOf] at hk'; subst hk'; exact hk) (by simp [keysOf])
  rw [this]
  simp [mergeRows, findRow_none_of_not_mem k _ hk]

/-- upserting an entry whose key exists merges into it, it never appends a second one -/
theorem upsert_existing_key_merges (ks : List Schema) (k : Key) (sb tb : List Data) (t : List (Key × List Data))
    (h : findRow k t = some tb) :
    mergeRows ks [(k, sb)] t = setRow k (mergeKids ks sb tb) t ∧
    keysOf (mergeRows ks [(k, sb)] t) = keysOf t := by
  simp [mergeRows, h, keysOf_setRow]

/-- one step of any operation keeps "conforming and no list holds two entries with equal keys" -/
theorem step_preserves_unique_keys (ks : List Schema) (body : List Data) (op : Op)
    (hop : op.wf ks = true) (h : Inv ks body) : Inv ks (step ks body op) :=
  step_preserves ks body op hop h

/-- **every history**: after any sequence of inserts, upserts, updates, replaces and deletes no
    list holds two entries with equal keys, at any depth -/
theorem unique_keys_after_any_history (ks : List Schema) (ops : List Op) (body : List Data)
    (hops : ∀ op ∈ ops, op.wf ks = true) (h : Inv ks body) :
    Inv ks (ops.foldl (step ks) body) := history_preserves ks ops body hops h

/-- **after every history every node is still found under its own address**: whatever sequence of inserts,
    upserts, updates, replaces and deletes was applied, Find (Model/Find: schema check + walk) of the address of
    any node of the resulting tree — a container, a list, an entry at any depth, a leaf — returns exactly that
    node, never another entry of the same list -/
theorem find_exact_after_any_history (ks : List Schema) (ops : List Op) (body : List Data)
    (hops : ∀ op ∈ ops, op.wf ks = true) (h : Inv ks body)
    (p : List Find.Seg) (l : Find.Loc) (hr : Find.Reach ks (ops.foldl (step ks) body) p l) :
    Find.find ks (ops.foldl (step ks) body) p = .found l := by
  have hinv := history_preserves ks ops body hops h
  unfold Find.find
  rw [Find.reach_check hr]
  exact Find.reach_walk hr hinv.2

/-- … and a deleted entry is not found any more, by the whole path: after `delRow i k` on a list with unique
    keys no address through that entry names anything (Find gives "nothing there", never another entry) -/
theorem deleted_entry_unreachable (ks : List Schema) (body : List Data) (i n : Nat) (lks : List Schema)
    (rows : List (Key × List Data)) (k : Key) (hk : k ≠ [])
    (hs : ks[i]? = some (.list n lks)) (hb : body[i]? = some (.list rows))
    (hu : uniqueKeysBody body = true) (rest : List Find.Seg) :
    ∀ l, Find.walk ks (deleteRow i k body) (⟨i, k⟩ :: rest) ≠ .found l := by
  intro l
  unfold deleteRow
  have hnd : (keysOf rows).Nodup := (Find.unique_list body i rows hb hu).1
  have hfr := findRow_removeRow_self k rows hnd
  have hget : (body.set i (.list (removeRow k rows)))[i]? = some (.list (removeRow k rows)) := by
    have hlt : i < body.length := by
      rcases Nat.lt_or_ge i body.length with h | h
      · exact h
      · simp [List.getElem?_eq_none h] at hb
    simp [List.getElem?_set, hlt]
  simp only [hb, Find.walk, hget, hs]
  cases hrr : removeRow k rows with
  | nil => simp
  | cons r rs =>
    have hke : k.isEmpty = false := by cases k with | nil => exact absurd rfl hk | cons _ _ => rfl
    rw [hrr] at hfr
    simp [hke, hfr]

/-! non-vacuity of the two statements above: a list of two entries, the first deleted; the second is found by its
    key, the first is not -/
example :
    let ks : List Schema := [.list 1 [.leaf none, .leaf none]]
    let b : List Data := [.list [(["a"], [.leaf (some "a"), .leaf (some "1")]), (["b"], [.leaf (some "b"), .leaf none])]]
    Inv ks b ∧ (Op.delRow 0 ["a"]).wf ks = true ∧
    (match Find.find ks ([Op.delRow 0 ["a"]].foldl (step ks) b) [⟨0, ["b"]⟩] with | .found (.body _ [.leaf (some "b"), _]) => true | _ => false) = true ∧
    (match Find.find ks ([Op.delRow 0 ["a"]].foldl (step ks) b) [⟨0, ["a"]⟩] with | .none => true | _ => false) = true := by
  refine ⟨⟨by decide, by decide⟩, by decide, by decide, by decide⟩

/-- each entry is found under the key it was stored with (lookup and enumeration agree) -/
theorem indexed_by_own_key (rows : List (Key × List Data)) (k : Key) (b : List Data)
    (h : (keysOf rows).Nodup) (hm : (k, b) ∈ rows) : findRow k rows = some b := by
  induction rows with
  | nil => simp at hm
  | cons r rs ih =>
    obtain ⟨k', b'⟩ := r
    simp only [keysOf, List.map_cons, List.nodup_cons] at h
    simp only [findRow]
    rcases List.mem_cons.1 hm with e | hm'
    · cases e; simp
    · have hne : k' ≠ k := by
        intro e; subst e
        exact h.1 (List.mem_map.2 ⟨(k', b), hm', rfl⟩)
      simp only [hne, if_false]
      exact ih (by simpa [keysOf] using h.2) hm'

/-! #### edits addressed at an entry -/

/-- the merge of a document that passed the guard keeps the key leaves -/
theorem merge_keeps_key (k : Key) : ∀ (ks : List Schema) (doc body : List Data),
    leadingLeaves k.length ks = true → shownKey k.length body = some k → keepsKey k doc = true →
    shownKey k.length (mergeKids ks doc body) = some k := by
  induction k with
  | nil => intro ks doc body _ _ _; simp [shownKey]
  | cons kv kr ih =>
    intro ks doc body hs hb hk
    cases ks with
    | nil => simp [leadingLeaves] at hs
    | cons s sr =>
      cases s with
      | cont c => simp [leadingLeaves] at hs
      | list n c => simp [leadingLeaves] at hs
      | leaf dflt =>
        have hs' : leadingLeaves kr.length sr = true := by simpa [leadingLeaves] using hs
        cases body with
        | nil => simp [shownKey] at hb
        | cons bd br =>
          cases bd with
          | cont c => simp [shownKey] at hb
          | list rows => simp [shownKey] at hb
          | leaf bo =>
            cases bo with
            | none => simp [shownKey] at hb
            | some bv =>
              simp only [List.length_cons, shownKey, Option.map_eq_some_iff] at hb
              obtain ⟨kr', hbr, hkr⟩ := hb
              have hbv : bv = kv := (List.cons.inj hkr).1
              have hkr' : kr' = kr := (List.cons.inj hkr).2
              subst hbv; subst hkr'
              cases doc with
              | nil => simp [mergeKids, shownKey, hbr]
              | cons d dr =>
                cases d with
                | leaf o =>
                  cases o with
                  | some v =>
                    simp only [keepsKey, Bool.and_eq_true, beq_iff_eq] at hk
                    simp [mergeKids, merge, shownKey, ih sr dr br hs' hbr hk.2, hk.1]
                  | none =>
                    simp only [keepsKey] at hk
                    simp [mergeKids, merge, shownKey, ih sr dr br hs' hbr hk]
                | cont c =>
                  simp only [keepsKey] at hk
                  simp [mergeKids, merge, shownKey, ih sr dr br hs' hbr hk]
                | list rows =>
                  simp only [keepsKey] at hk
                  simp [mergeKids, merge, shownKey, ih sr dr br hs' hbr hk]

/-- **an accepted edit of an entry leaves it showing the key it is filed under**: whatever the document
    holds in its key leaves, if the guard lets it through the merged body shows `k` again -/
theorem entry_edit_keeps_key (k : Key) (ks : List Schema) (doc body b' : List Data)
    (hs : leadingLeaves k.length ks = true) (hb : shownKey k.length body = some k)
    (he : editEntry ks k doc body = .ok b') : shownKey k.length b' = some k := by
  unfold editEntry at he
  split at he
  · rename_i hk
    injection he with he; subst he
    exact merge_keeps_key k ks doc body hs hb hk
  · cases he

/-- **a document that names another key is refused**, wherever in the key the difference is -/
theorem entry_edit_other_key_refused (ks : List Schema) (pre post : Key) (kv v : Val) (dpre dpost body : List Data)
    (hl : dpre.length = pre.length) (hne : v ≠ kv) :
    editEntry ks (pre ++ kv :: post) (dpre ++ .leaf (some v) :: dpost) body = .error .conflict := by
  have : keepsKey (pre ++ kv :: post) (dpre ++ .leaf (some v) :: dpost) = false := by
    induction pre generalizing dpre with
    | nil =>
      cases dpre with
      | nil => simp [keepsKey, hne]
      | cons _ _ => simp at hl
    | cons p pr ih =>
      cases dpre with
      | nil => simp at hl
      | cons d dr =>
        have hl' : dr.length = pr.length := by simpa using hl
        cases d with
        | leaf o => cases o <;> simp [keepsKey, ih dr hl']
        | cont c => simp [keepsKey, ih dr hl']
        | list rows => simp [keepsKey, ih dr hl']
  simp [editEntry, this]

example : editEntry [.leaf none, .leaf none] ["a"] [.leaf (some "b")] [.leaf (some "a"), .leaf (some "1")] = .error .conflict := by
  simp [editEntry, keepsKey]
example : editEntry [.leaf none, .leaf none] ["a"] [.leaf none, .leaf (some "9")] [.leaf (some "a"), .leaf (some "1")] =
    .ok [.leaf (some "a"), .leaf (some "9")] := by
  simp [editEntry, keepsKey, mergeKids, merge]
example : leadingLeaves 1 [.leaf none, .leaf none] = true ∧ shownKey 1 [.leaf (some "a"), .leaf (some "1")] = some ["a"] := by decide

/-! #### non-vacuity -/
example : Data.Inv C03.exSchema C03.exTgt := by unfold Data.Inv; decide
example : (Op.replace 2 (.list [(["z"], [.leaf (some "z"), .leaf none])])).wf C03.exSchema = true := by decide
example : step C03.exSchema C03.exTgt (.delRow 2 ["k1"]) =
    [.leaf (some "old"), .cont none, .list [(["k2"], [.leaf (some "k2"), .leaf (some "2")])]] := by rfl

end YangVerif.C18
