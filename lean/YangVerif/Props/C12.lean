/-
  C12 — every node told an edit begins is told it ended, and node errors surface.
  The scenario tree is the bracket structure of a fault-free run of node/edit.go's `enter`
  (and Selection.Delete); `run s k` replays it with callback number k failing.
-/
import YangVerif.Proofs.EditTrace
namespace YangVerif.C12
open YangVerif.EditTrace

/-- **begin/end balanced**: for every scenario (any nesting, any bubbling group, any number of
    callbacks) and every failing position k, for every node x: each successful Begin of x is
    followed by exactly one End of x before the call returns — the running balance never goes
    negative and is zero at the end. -/
theorem begin_end_balanced (s : Scn) (k : Nat) (x : Id) : bal x (run s k).trace 0 = some 0 :=
  bal_runScn x k s 0 0

/-- **errors surface**: the API call succeeds exactly when no callback failed -/
theorem error_surfaces (s : Scn) (k : Nat) : (run s k).ok = noFail (run s k).trace :=
  (runScn_shape k s 0).2

/-- **nothing is written after the failing call**: after the first failing callback the trace
    holds End notifications only -/
theorem no_write_after_failure (s : Scn) (k : Nat) : onlyEndsAfterFailure (run s k).trace = true :=
  (runScn_shape k s 0).1

/-- without a fault (k = 0) every End of a group is delivered and the call succeeds (non-vacuity
    of the model: a concrete nested scenario) -/
def exScn : Scn := .mk ["c", "root"] [.call "field f", .sub (.mk ["c/d"] [.call "field g", .call "child e"]), .call "field h"]

example : (run exScn 0).ok = true ∧ (run exScn 0).n = 10 := by decide
example : (run exScn 2).trace = [.beginOk "c", .beginFail "root", .endOk "c"] := by decide
example : (run exScn 6).trace =
    [.beginOk "c", .beginOk "root", .callOk "field f", .beginOk "c/d", .callOk "field g", .callFail "child e",
     .endOk "c/d", .endOk "c", .endOk "root"] ∧ (run exScn 6).ok = false := by decide

/-! #### the pinned tree: a failing Begin while bubbling left the nodes below without End -/
theorem legacy_begin_witness :
    (beginAllL 2 0 ["c", "root"]).trace = [.beginOk "c", .beginFail "root"] ∧
    bal "c" (beginAllL 2 0 ["c", "root"]).trace 0 = some 1 := by decide

/-- and a failing End stopped the bubbling: the ancestor never got its End -/
theorem legacy_end_witness :
    (endAllL 1 0 ["c", "root"]).trace = [.endFail "c"] ∧
    (endAll 1 0 ["c", "root"]).trace = [.endFail "c", .endOk "root"] := by decide

end YangVerif.C12
