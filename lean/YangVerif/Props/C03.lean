/-
  C03 — upsert, insert and update are keyed deep merges with defined failure cases.
  Property theorems only; the editor model (a port of node/edit.go) and the merge
  specification are in Model/Data.lean, lemmas in Proofs/Data.lean.
-/
import YangVerif.Proofs.Data
namespace YangVerif.C03
open YangVerif.Data

/-- **upsert = keyed deep merge** for every schema, every pair of conforming trees (any depth,
    nested lists, empty, disjoint, overlapping): leaves of the source overwrite, containers merge,
    list entries are matched by key and otherwise appended in source order, created containers
    and entries get the schema defaults of their unset leaves. -/
theorem upsert_eq_merge (ks : List Schema) (src tgt : List Data)
    (hs : conformsBody ks src = true) (ht : conformsBody ks tgt = true) :
    editKids .upsert false ks src tgt = .ok (mergeKids ks src tgt) :=
  editKids_upsert ks src tgt hs ht

/-- the same for an edit that enters at a single node (container, list) -/
theorem upsert_node_eq_merge (s : Schema) (src tgt : Data)
    (hs : conforms s src = true) (ht : conforms s tgt = true) :
    edit .upsert false s src tgt = .ok (merge s src tgt) :=
  edit_upsert s src tgt hs ht

/-- **insert**: the merge when no container, list or list entry at the level being inserted
    exists in the target, otherwise a conflict error — nothing else can happen -/
theorem insert_ok_or_conflict (ks : List Schema) (src tgt : List Data)
    (hs : conformsBody ks src = true) (ht : conformsBody ks tgt = true) (hu : uniqueKeysBody src = true) :
    editKids .insert false ks src tgt =
      if insertOKKids ks src tgt then .ok (mergeKids ks src tgt) else .error .conflict :=
  editKids_insert ks src tgt hs ht hu

/-- **update**: the merge when every container and list entry the source addresses exists,
    otherwise a not-found error -/
theorem update_ok_or_notfound (ks : List Schema) (src tgt : List Data)
    (hs : conformsBody ks src = true) (ht : conformsBody ks tgt = true) :
    editKids .update false ks src tgt =
      if updateOKKids ks src tgt then .ok (mergeKids ks src tgt) else .error .notFound :=
  editKids_update ks src tgt hs ht

/-- a created container or entry gets the defaults of its unset leaves -/
theorem created_gets_defaults (ks : List Schema) (src : List Data) (hs : conformsBody ks src = true) :
    editKids .upsert true ks src (emptyBody ks) = .ok (mergeKids ks src (freshBody ks)) :=
  editKids_upsert_new ks src hs

/-- **frame**: a child the source does not mention is untouched … -/
theorem frame_child (s : Schema) (t : Data) : merge s (emptyOf s) t = t := merge_absent s t

/-- … and so is every list entry whose key the source does not mention -/
theorem frame_entry (ks : List Schema) (k : Key) (rows t : List (Key × List Data)) (h : k ∉ keysOf rows) :
    findRow k (mergeRows ks rows t) = findRow k t := mergeRows_frame ks k rows t h

/-- the result of any of the three edits conforms to the schema again -/
theorem merge_conforms (ks : List Schema) (src tgt : List Data)
    (hs : conformsBody ks src = true) (ht : conformsBody ks tgt = true) :
    conformsBody ks (mergeKids ks src tgt) = true := conformsBody_mergeKids ks src tgt hs ht

/-! #### non-vacuity: a schema with a keyed list, a container with a default, overlapping trees -/
def exSchema : List Schema := [.leaf none, .cont [.leaf (some "dflt"), .leaf none], .list 1 [.leaf none, .leaf (some "7")]]
def exSrc : List Data := [.leaf (some "new"), .cont (some [.leaf none, .leaf (some "b")]),
  .list [(["k2"], [.leaf (some "k2"), .leaf (some "x")]), (["k3"], [.leaf (some "k3"), .leaf none])]]
def exTgt : List Data := [.leaf (some "old"), .cont none,
  .list [(["k1"], [.leaf (some "k1"), .leaf (some "1")]), (["k2"], [.leaf (some "k2"), .leaf (some "2")])]]

example : conformsBody exSchema exSrc = true ∧ conformsBody exSchema exTgt = true := by decide
example : editKids .upsert false exSchema exSrc exTgt = .ok
    [.leaf (some "new"), .cont (some [.leaf (some "dflt"), .leaf (some "b")]),
     .list [(["k1"], [.leaf (some "k1"), .leaf (some "1")]), (["k2"], [.leaf (some "k2"), .leaf (some "x")]),
            (["k3"], [.leaf (some "k3"), .leaf (some "7")])]] := by rfl
example : editKids .insert false exSchema exSrc exTgt = .error .conflict := by rfl
example : editKids .update false exSchema exSrc exTgt = .error .notFound := by rfl

end YangVerif.C03
