/-
  C15 — the JSON writer always emits well-formed, correctly named and typed JSON.
  (Also carries the JSON half of C04: reader ∘ writer = id on the token level.)
-/
import YangVerif.Proofs.Json
namespace YangVerif.C15
open YangVerif.Json

/-- **every string is escaped so that it decodes to the stored text**, for any sequence of
    Unicode scalars: controls, quote, backslash, < > &, U+2028/2029, non-ASCII -/
theorem string_roundtrip (s : Scalars) : unescape (escape s) = some s := unescape_escape s

/-- **writer = render**: for every container body (leaves, leaf-lists, containers, lists of
    entries, any nesting, empty containers and lists) the tokens streamed by the writer while the
    editor inserts into it — with its per-level `first` flag for commas — are the rendering of
    the intended value: containers are objects, lists arrays of objects, names in order -/
theorem writer_eq_render (ms : List Member) : writeDoc ms = some (render (.obj (toJSON ms))) :=
  writeDoc_eq_render ms

/-- **exactly one well-formed value**: an RFC 8259 reader accepts the rendering of every value,
    consumes all of it, and returns that very value -/
theorem render_wellformed (v : JVal) : parseDoc (render v) = some v := parseDoc_render v

/-- together: reading what the writer produced gives the intended value -/
theorem read_written (ms : List Member) :
    (writeDoc ms).bind parseDoc = some (.obj (toJSON ms)) := by
  rw [writer_eq_render]; simp [render_wellformed]

/-- brackets balance inside a larger text as well: whatever follows is left untouched -/
theorem render_prefix_free (v : JVal) (rest : List Tok) :
    parseVal ((render v).length + 1) (render v ++ rest) = some (v, rest) :=
  parseVal_render v rest _ (by omega)

/-! #### non-vacuity -/
example : escape [34, 92, 10, 60, 0x2028, 233, 1] =
    [92, 34, 92, 92, 92, 110, 92, 117, 48, 48, 51, 99, 92, 117, 50, 48, 50, 56, 233, 92, 117, 48, 48, 48, 49] := by decide
example : writeDoc [.leaf "a" (.num "1"), .cont "c" [], .list "l" [[.leaf "k" (.str [120])], []]] =
    some [.lbrace, .name "a", .colon, .num "1", .comma, .name "c", .colon, .lbrace, .rbrace, .comma,
          .name "l", .colon, .lbrack, .lbrace, .name "k", .colon, .str [120], .rbrace, .comma, .lbrace, .rbrace, .rbrack,
          .rbrace] := by simp [writeDoc, feedAll, feed, events, rowEvents, delim, render]

end YangVerif.C15
