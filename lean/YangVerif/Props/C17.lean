/-
  C17 — typed values are totally ordered like the numbers and strings they denote.

  Property theorems only; helper lemmas live in Proofs/Compare.lean.
  `Gen.compareTable` is regenerated from /repo/val/types.go on every run.
-/
import YangVerif.Proofs.Compare
import YangVerif.Gen.CompareTable
namespace YangVerif.C17
open YangVerif.Compare

/-- TIE (regenerated): every `Compare` method in /repo/val/types.go has a body of a
    shape that is proved ordered below.  Finite generated table, closed by `decide`. -/
theorem compare_table_good : ∀ e ∈ Gen.compareTable, e.2.good = true := by decide

/-- the table covers every comparable scalar format of the library -/
theorem compare_table_complete :
    ∀ n ∈ ["Int8", "Int16", "Int32", "Int64", "UInt8", "UInt16", "UInt32", "UInt64",
           "Decimal64", "String", "Bool", "Enum", "IdentRef", "Binary"],
      n ∈ Gen.compareTable.map (·.1) := by decide

/-! #### every good shape has the sign of the mathematical difference, for all operands -/

theorem threeWayS_ordered (w : Nat) :
    OrderedBy (fun (x y : BitVec w) => x.toInt < y.toInt) threeWayS :=
  ⟨threeWayS_neg, threeWayS_zero, threeWayS_pos⟩

theorem threeWayU_ordered (w : Nat) :
    OrderedBy (fun (x y : BitVec w) => x.toNat < y.toNat) threeWayU :=
  ⟨threeWayU_neg, threeWayU_zero, threeWayU_pos⟩

/-- Int32 and Enum ids: subtraction in Go's 64-bit `int` never wraps for 32-bit operands -/
theorem subWide32_ordered :
    OrderedBy (fun (x y : BitVec 32) => x.toInt < y.toInt) subWide where
  neg_iff := fun x y => by rw [subWide32_exact]; omega
  zero_iff := fun x y => by
    rw [subWide32_exact]
    exact ⟨fun h => BitVec.eq_of_toInt_eq (by omega), fun h => by subst h; omega⟩
  pos_iff := fun x y => by rw [subWide32_exact]; omega

/-- strings, binary, identity names: byte-wise lexicographic order -/
theorem lex_ordered : OrderedBy lexLt lexCmp := ⟨lexCmp_neg, lexCmp_zero, lexCmp_pos⟩

theorem bool_ordered : OrderedBy (fun (x y : Bool) => x = false ∧ y = true) boolCmp :=
  boolCmp_ordered

/-! #### laws that follow for every ordered comparison: equality is an equivalence,
     ordering a strict total order that agrees with equality -/

theorem equal_refl {α} {lt : α → α → Prop} {cmp} (h : OrderedBy lt cmp) (x : α) : cmp x x = 0 :=
  (h.zero_iff x x).2 rfl

theorem equal_symm {α} {lt : α → α → Prop} {cmp} (h : OrderedBy lt cmp) (x y : α) :
    cmp x y = 0 → cmp y x = 0 := fun e => (h.zero_iff y x).2 ((h.zero_iff x y).1 e).symm

theorem equal_trans {α} {lt : α → α → Prop} {cmp} (h : OrderedBy lt cmp) (x y z : α) :
    cmp x y = 0 → cmp y z = 0 → cmp x z = 0 := fun e1 e2 =>
  (h.zero_iff x z).2 (((h.zero_iff x y).1 e1).trans ((h.zero_iff y z).1 e2))

theorem lt_irrefl {α} {lt : α → α → Prop} {cmp} (h : OrderedBy lt cmp) (x : α) : ¬ cmp x x < 0 := by
  have := equal_refl h x; omega

theorem lt_trans {α} {lt : α → α → Prop} {cmp} (h : OrderedBy lt cmp) (hs : StrictTotal lt) (x y z : α) :
    cmp x y < 0 → cmp y z < 0 → cmp x z < 0 := fun h1 h2 =>
  (h.neg_iff x z).2 (hs.trans _ _ _ ((h.neg_iff x y).1 h1) ((h.neg_iff y z).1 h2))

theorem lt_total {α} {lt : α → α → Prop} {cmp} (h : OrderedBy lt cmp) (hs : StrictTotal lt) (x y : α) :
    cmp x y < 0 ∨ cmp x y = 0 ∨ cmp y x < 0 := by
  rcases hs.total x y with h1 | h1 | h1
  · exact Or.inl ((h.neg_iff x y).2 h1)
  · exact Or.inr (Or.inl ((h.zero_iff x y).2 h1))
  · exact Or.inr (Or.inr ((h.neg_iff y x).2 h1))

theorem cmp_antisym {α} {lt : α → α → Prop} {cmp} (h : OrderedBy lt cmp) (x y : α) :
    cmp x y < 0 ↔ 0 < cmp y x := by rw [h.neg_iff, h.pos_iff]

/-- numeric order for every signed width including the extremes -/
theorem signed_numeric_order (w : Nat) (x y : BitVec w) :
    (threeWayS x y < 0 ↔ x.toInt < y.toInt) ∧ (threeWayS x y = 0 ↔ x = y) ∧ (0 < threeWayS x y ↔ y.toInt < x.toInt) :=
  ⟨threeWayS_neg x y, threeWayS_zero x y, threeWayS_pos x y⟩

theorem unsigned_numeric_order (w : Nat) (x y : BitVec w) :
    (threeWayU x y < 0 ↔ x.toNat < y.toNat) ∧ (threeWayU x y = 0 ↔ x = y) ∧ (0 < threeWayU x y ↔ y.toNat < x.toNat) :=
  ⟨threeWayU_neg x y, threeWayU_zero x y, threeWayU_pos x y⟩

/-! #### key tuples are ordered lexicographically -/

theorem compareVals_lex {α} {lt : α → α → Prop} {cmp} (h : OrderedBy lt cmp) (hs : StrictTotal lt)
    (a b : List α) (hl : a.length = b.length) :
    (compareVals cmp a b < 0 ↔ tupLt lt a b) ∧ (0 < compareVals cmp a b ↔ tupLt lt b a) ∧
    (equalVals cmp a b = true ↔ a = b) :=
  ⟨compareVals_neg h hs a b hl, compareVals_pos h hs a b hl, equalVals_iff h a b⟩

/-! #### consequently lookups find exactly the entry whose key equals the requested key -/

/-- sorted index + sort.Search + EqualVals (nodeutil/reflect.go `sliceSorter.find`) -/
theorem lookup_exact_sorted {α} {lt : α → α → Prop} {cmp} (h : OrderedBy lt cmp) (hs : StrictTotal lt)
    (keys : List (List α)) (key : List α)
    (hlen : ∀ i, i < keys.length → (keys.getD i []).length = key.length)
    (hasc : StrictAsc lt keys) (i : Nat) :
    sorterFind cmp keys key = some i ↔ (i < keys.length ∧ keys.getD i [] = key) :=
  sorterFind_exact h hs keys key hlen hasc i

/-- and nothing when no entry has the key -/
theorem lookup_absent_sorted {α} {lt : α → α → Prop} {cmp} (h : OrderedBy lt cmp) (hs : StrictTotal lt)
    (keys : List (List α)) (key : List α)
    (hlen : ∀ i, i < keys.length → (keys.getD i []).length = key.length)
    (hasc : StrictAsc lt keys) (habs : ∀ i, i < keys.length → keys.getD i [] ≠ key) :
    sorterFind cmp keys key = none := by
  cases hf : sorterFind cmp keys key with
  | none => rfl
  | some i =>
    have := (sorterFind_exact h hs keys key hlen hasc i).1 hf
    exact absurd this.2 (habs i this.1)

/-- linear scan (nodeutil/node_slice.go `findByKey`) -/
theorem lookup_exact_linear {κ} (eq : κ → κ → Bool) (heq : ∀ a b, eq a b = true ↔ a = b)
    (ks : List κ) (key : κ) :
    (∀ i, linearFind eq ks key 0 = some i → ks[i]? = some key) ∧
    (linearFind eq ks key 0 = none ↔ key ∉ ks) := by
  refine ⟨?_, linearFind_none eq heq ks key 0⟩
  intro i hi
  obtain ⟨_, h2, h3, _⟩ := linearFind_some eq heq ks key 0 i hi
  simp only [Nat.sub_zero] at h2 h3
  rw [List.getD_eq_getElem?_getD, List.getElem?_eq_getElem h2] at h3
  rw [List.getElem?_eq_getElem h2]; simpa using h3

/-! #### the shapes the tree had before `fix: val Compare …` are *not* ordered —
     kept so that the check recognises the defect if it returns -/

theorem subNarrow_witness : subNarrow (0x80#8) (0x7f#8) = 1 ∧ (0x80#8).toInt < (0x7f#8).toInt := by decide

theorem sub3U_never_negative (w : Nat) (x y : BitVec w) : ¬ sub3U x y < 0 := by
  unfold sub3U
  have h0 : (x - y).ult 0#w = false := by simp [BitVec.ult]
  simp only [h0, Bool.false_eq_true, if_false]
  split <;> omega

theorem sub3U_witness : sub3U (1#8) (2#8) = 1 := by decide

theorem sub3S_witness :
    sub3S (0x8000000000000000#64) (0x7fffffffffffffff#64) = 1 ∧
    (0x8000000000000000#64).toInt < (0x7fffffffffffffff#64).toInt := by decide

/-- with the unsigned-subtraction comparator the sorted index misses a present key -/
theorem lookup_missed_witness :
    sorterFind (fun (x y : BitVec 8) => sub3U x y) [[1#8], [2#8], [3#8]] [2#8] = none := by decide

/-! #### non-vacuity: the hypotheses of the lookup theorem are met by a concrete list -/

example : sorterFind (fun (x y : BitVec 8) => threeWayU x y) [[1#8], [2#8], [200#8]] [200#8] = some 2 := by decide
example : StrictAsc (fun (x y : BitVec 8) => x.toNat < y.toNat) [[1#8], [2#8], [200#8]] := by
  intro i j hij hj
  have : j < 3 := hj
  have hi : i = 0 ∨ i = 1 := by omega
  rcases hi with rfl | rfl
  · have : j = 1 ∨ j = 2 := by omega
    rcases this with rfl | rfl <;> simp [tupLt]
  · have : j = 2 := by omega
    subst this; simp [tupLt]

end YangVerif.C17
