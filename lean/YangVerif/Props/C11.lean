/-
  C11 — if-feature (and deviations) shape the schema exactly as written.
  Property theorems only; lemmas in Proofs/IfFeature.lean.
-/
import YangVerif.Proofs.IfFeature
namespace YangVerif.C11
open YangVerif.IfFeature

/-- **every expression, every assignment**: for every if-feature expression of the RFC 7950
    grammar (any nesting of not/and/or/parentheses, any size) and every feature assignment
    `env`, the library's stack evaluator returns the RFC meaning: `not` binds tighter than
    `and`, `and` tighter than `or`, parentheses group. -/
theorem eval_eq_sem (env : String → Bool) (o : OrE) :
    evaluate env o.toks = some (o.sem env) :=
  evaluate_eq_sem env o

/-- the RFC meaning has the stated precedence (sanity of the Spec itself) -/
theorem sem_precedence (env : String → Bool) (a b c : String) :
    -- a or b and c  =  a or (b and c)
    (OrE.cons (.one (.prim (.feat a))) (.one (.cons (.prim (.feat b)) (.one (.prim (.feat c)))))).sem env
      = (env a || (env b && env c)) ∧
    -- not a and b  =  (not a) and b
    (OrE.one (.cons (.not (.prim (.feat a))) (.one (.prim (.feat b))))).sem env = (!env a && env b) := by
  simp [OrE.sem, AndE.sem, NotE.sem, Prim.sem]

/-- allow-list / deny-list / all-on configurations -/
theorem enabled_allow (declared specified : List String) (f : String) :
    enabled declared specified false f = true ↔ (f ∈ declared ∧ f ∈ specified) := by
  simp [enabled]
theorem enabled_deny (declared specified : List String) (f : String) :
    enabled declared specified true f = true ↔ (f ∈ declared ∧ f ∉ specified) := by
  simp [enabled]
theorem enabled_all_on (declared : List String) (f : String) :
    enabled declared [] true f = true ↔ f ∈ declared := by
  simp [enabled]

/-- the per-expression cache is transparent: with a cache that only holds results of `eval`,
    Resolve returns what `eval` returns and the cache stays such a cache -/
theorem cache_transparent (eval : String → Option Bool) (cache : List (String × Bool))
    (hc : ∀ e ∈ cache, eval e.1 = some e.2) (expr : String) :
    (resolveCached eval cache expr).1 = eval expr ∧
    ∀ e ∈ (resolveCached eval cache expr).2, eval e.1 = some e.2 := by
  unfold resolveCached
  cases hf : cache.find? (·.1 == expr) with
  | some e =>
    have hm := List.mem_of_find?_eq_some hf
    have he : e.1 = expr := by simpa using List.find?_some hf
    simp only
    exact ⟨by rw [← he, hc e hm], hc⟩
  | none =>
    cases hv : eval expr with
    | none => exact ⟨by simp, by simpa using hc⟩
    | some b =>
      refine ⟨by simp, ?_⟩
      simp only
      intro e he
      rcases List.mem_cons.1 he with rfl | h
      · exact hv
      · exact hc e h

/-- a node guarded by several if-feature statements is present iff all of them hold -/
theorem checkFeature_all (eval : String → Option Bool) (exprs : List String)
    (hok : ∀ e ∈ exprs, (eval e).isSome) :
    checkFeature eval exprs = some (exprs.all fun e => eval e == some true) := by
  unfold checkFeature
  suffices h : ∀ (acc : Bool), (∀ e ∈ exprs, (eval e).isSome) →
      exprs.foldl (checkStep eval) (some acc)
        = some (acc && exprs.all fun e => eval e == some true) by
    simpa using h true hok
  induction exprs with
  | nil => intro acc _; simp
  | cons e es ih =>
    intro acc hok'
    have he := hok' e (List.mem_cons_self ..)
    have hes : ∀ x ∈ es, (eval x).isSome := fun x hx => hok' x (List.mem_cons_of_mem _ hx)
    cases acc with
    | false => simp only [List.foldl_cons, checkStep]; rw [ih hes false hes]; simp
    | true =>
      simp only [List.foldl_cons, checkStep]
      cases hv : eval e with
      | none => simp [hv] at he
      | some b => rw [ih hes b hes]; cases b <;> simp [hv]

/-! #### the pinned tree's evaluator (legacy) got groups containing `or` wrong — witnesses -/

/-- `not (a or b) and c` with nothing enabled: the legacy evaluator says **true** -/
theorem legacy_not_group_witness :
    evaluateLegacy (fun _ => false) [.not, .lp, .feat "a", .or, .feat "b", .rp, .and, .feat "c"] = some true ∧
    evaluate (fun _ => false) [.not, .lp, .feat "a", .or, .feat "b", .rp, .and, .feat "c"] = some false := by
  decide

/-- `a and (b or c) or d` with only d enabled: the legacy evaluator says **false** -/
theorem legacy_group_or_witness :
    evaluateLegacy (fun s => s == "d") [.feat "a", .and, .lp, .feat "b", .or, .feat "c", .rp, .or, .feat "d"] = some false ∧
    evaluate (fun s => s == "d") [.feat "a", .and, .lp, .feat "b", .or, .feat "c", .rp, .or, .feat "d"] = some true := by
  decide

/-- the pinned tree also accepted texts outside the grammar -/
theorem legacy_accepts_malformed_witness :
    evaluateLegacy (fun s => s == "a") [.feat "a", .feat "b", .or, .not] = some true := by decide

/-! #### malformed expressions are errors (concrete shapes; the general claim is carried by the
     exhaustive enumeration in the tie) -/
theorem malformed_examples (env : String → Bool) :
    evaluate env [] = none ∧
    evaluate env [.feat "a", .feat "b"] = none ∧
    evaluate env [.feat "a", .and] = none ∧
    evaluate env [.and, .feat "a"] = none ∧
    evaluate env [.lp, .feat "a"] = none ∧
    evaluate env [.feat "a", .rp] = none ∧
    evaluate env [.lp, .rp] = none ∧
    evaluate env [.not] = none ∧
    evaluate env [.feat "a", .feat "b", .or, .not] = none ∧
    evaluate env [.feat "a", .not, .or, .feat "b"] = none := by
  refine ⟨?_, ?_, ?_, ?_, ?_, ?_, ?_, ?_, ?_, ?_⟩ <;> simp [evaluate, evalF, switchF]

/-! #### non-vacuity -/
example : tokenize "not (a or b) and c" = [.not, .lp, .feat "a", .or, .feat "b", .rp, .and, .feat "c"] := by decide
example : (OrE.one (.cons (.not (.prim (.paren (.cons (.one (.prim (.feat "a"))) (.one (.one (.prim (.feat "b")))))))) (.one (.prim (.feat "c"))))).toks
    = [.not, .lp, .feat "a", .or, .feat "b", .rp, .and, .feat "c"] := by decide

/-! #### a malformed expression is an error wherever it stands

  meta/builder.go `Builder.IfFeature` evaluates every expression once, with no feature on, when the statement is
  read - also those no feature configuration ever gets to (below a node that is left out, in a grouping nobody
  uses).  The module text is accepted only if all of them evaluate. -/
def builderAccepts (exprs : List (List Tok)) : Bool :=
  exprs.all fun t => (evaluate (fun _ => false) t).isSome

/-- one malformed expression anywhere among the statements of the module refuses the module -/
theorem malformed_anywhere_refused (pre post : List (List Tok)) (t : List Tok)
    (h : evaluate (fun _ => false) t = none) : builderAccepts (pre ++ t :: post) = false := by
  simp [builderAccepts, h]

example : builderAccepts [[.feat "a"], [.feat "a", .or], [.feat "b"]] = false ∧
    builderAccepts [[.feat "a"], [.feat "a", .or, .feat "b"], [.not, .feat "b"]] = true := by decide

end YangVerif.C11
