/-
  C11 — if-feature (and deviations) shape the schema exactly as written.
  Property theorems only; lemmas in Proofs/IfFeature.lean.
-/
import YangVerif.Proofs.IfFeature
import YangVerif.Model.CaseIndex
namespace YangVerif.C11
open YangVerif.IfFeature

/-- **every expression, every assignment**: for every if-feature expression of the RFC 7950
    grammar (any nesting of not/and/or/parentheses, any size) and every feature assignment
    `env`, the library's stack evaluator returns the RFC meaning: `not` binds tighter than
    `and`, `and` tighter than `or`, parentheses group. -/
theorem eval_eq_sem (env : String → Bool) (o : OrE) :
    evaluate env o.toks = some (o.sem env) :=
  evaluate_eq_sem env o

/-- the RFC meaning has the stated precedence (sanity of the Spec itself) -/
theorem sem_precedence (env : String → Bool) (a b c : String) :
    -- a or b and c  =  a or (b and c)
    (OrE.cons (.one (.prim (.feat a))) (.one (.cons (.prim (.feat b)) (.one (.prim (.feat c)))))).sem env
      = (env a || (env b && env c)) ∧
    -- not a and b  =  (not a) and b
    (OrE.one (.cons (.not (.prim (.feat a))) (.one (.prim (.feat b))))).sem env = (!env a && env b) := by
  simp [OrE.sem, AndE.sem, NotE.sem, Prim.sem]

/-- allow-list / deny-list / all-on configurations -/
theorem enabled_allow (declared specified : List String) (f : String) :
    enabled declared specified false f = true ↔ (f ∈ declared ∧ f ∈ specified) := by
  simp [enabled]
theorem enabled_deny (declared specified : List String) (f : String) :
    enabled declared specified true f = true ↔ (f ∈ declared ∧ f ∉ specified) := by
  simp [enabled]
theorem enabled_all_on (declared : List String) (f : String) :
    enabled declared [] true f = true ↔ f ∈ declared := by
  simp [enabled]

/-- the per-expression cache is transparent: with a cache that only holds results of `eval`,
    Resolve returns what `eval` returns and the cache stays such a cache -/
theorem cache_transparent (eval : String → Option Bool) (cache : List (String × Bool))
    (hc : ∀ e ∈ cache, eval e.1 = some e.2) (expr : String) :
    (resolveCached eval cache expr).1 = eval expr ∧
    ∀ e ∈ (resolveCached eval cache expr).2, eval e.1 = some e.2 := by
  unfold resolveCached
  cases hf : cache.find? (·.1 == expr) with
  | some e =>
    have hm := List.mem_of_find?_eq_some hf
    have he : e.1 = expr := by simpa using List.find?_some hf
    simp only
    exact ⟨by rw [← he, hc e hm], hc⟩
  | none =>
    cases hv : eval expr with
    | none => exact ⟨by simp, by simpa using hc⟩
    | some b =>
      refine ⟨by simp, ?_⟩
      simp only
      intro e he
      rcases List.mem_cons.1 he with rfl | h
      · exact hv
      · exact hc e h

/-- a node guarded by several if-feature statements is present iff all of them hold -/
theorem checkFeature_all (eval : String → Option Bool) (exprs : List String)
    (hok : ∀ e ∈ exprs, (eval e).isSome) :
    checkFeature eval exprs = some (exprs.all fun e => eval e == some true) := by
  unfold checkFeature
  suffices h : ∀ (acc : Bool), (∀ e ∈ exprs, (eval e).isSome) →
      exprs.foldl (checkStep eval) (some acc)
        = some (acc && exprs.all fun e => eval e == some true) by
    simpa using h true hok
  induction exprs with
  | nil => intro acc _; simp
  | cons e es ih =>
    intro acc hok'
    have he := hok' e (List.mem_cons_self ..)
    have hes : ∀ x ∈ es, (eval x).isSome := fun x hx => hok' x (List.mem_cons_of_mem _ hx)
    cases acc with
    | false => simp only [List.foldl_cons, checkStep]; rw [ih hes false hes]; simp
    | true =>
      simp only [List.foldl_cons, checkStep]
      cases hv : eval e with
      | none => simp [hv] at he
      | some b => rw [ih hes b hes]; cases b <;> simp [hv]

/-! #### the pinned tree's evaluator (legacy) got groups containing `or` wrong — witnesses -/

/-- `not (a or b) and c` with nothing enabled: the legacy evaluator says **true** -/
theorem legacy_not_group_witness :
    evaluateLegacy (fun _ => false) [.not, .lp, .feat "a", .or, .feat "b", .rp, .and, .feat "c"] = some true ∧
    evaluate (fun _ => false) [.not, .lp, .feat "a", .or, .feat "b", .rp, .and, .feat "c"] = some false := by
  decide

/-- `a and (b or c) or d` with only d enabled: the legacy evaluator says **false** -/
theorem legacy_group_or_witness :
    evaluateLegacy (fun s => s == "d") [.feat "a", .and, .lp, .feat "b", .or, .feat "c", .rp, .or, .feat "d"] = some false ∧
    evaluate (fun s => s == "d") [.feat "a", .and, .lp, .feat "b", .or, .feat "c", .rp, .or, .feat "d"] = some true := by
  decide

/-- the pinned tree also accepted texts outside the grammar -/
theorem legacy_accepts_malformed_witness :
    evaluateLegacy (fun s => s == "a") [.feat "a", .feat "b", .or, .not] = some true := by decide

/-! #### malformed expressions are errors (concrete shapes; the general claim is carried by the
     exhaustive enumeration in the tie) -/
theorem malformed_examples (env : String → Bool) :
    evaluate env [] = none ∧
    evaluate env [.feat "a", .feat "b"] = none ∧
    evaluate env [.feat "a", .and] = none ∧
    evaluate env [.and, .feat "a"] = none ∧
    evaluate env [.lp, .feat "a"] = none ∧
    evaluate env [.feat "a", .rp] = none ∧
    evaluate env [.lp, .rp] = none ∧
    evaluate env [.not] = none ∧
    evaluate env [.feat "a", .feat "b", .or, .not] = none ∧
    evaluate env [.feat "a", .not, .or, .feat "b"] = none := by
  refine ⟨?_, ?_, ?_, ?_, ?_, ?_, ?_, ?_, ?_, ?_⟩ <;> simp [evaluate, evalF, switchF]

/-! #### non-vacuity -/
example : tokenize "not (a or b) and c" = [.not, .lp, .feat "a", .or, .feat "b", .rp, .and, .feat "c"] := by decide
example : (OrE.one (.cons (.not (.prim (.paren (.cons (.one (.prim (.feat "a"))) (.one (.one (.prim (.feat "b")))))))) (.one (.prim (.feat "c"))))).toks
    = [.not, .lp, .feat "a", .or, .feat "b", .rp, .and, .feat "c"] := by decide

/-! #### a malformed expression is an error wherever it stands

  meta/builder.go `Builder.IfFeature` evaluates every expression once, with no feature on, when the statement is
  read - also those no feature configuration ever gets to (below a node that is left out, in a grouping nobody
  uses).  The module text is accepted only if all of them evaluate. -/
def builderAccepts (exprs : List (List Tok)) : Bool :=
  exprs.all fun t => (evaluate (fun _ => false) t).isSome

/-- one malformed expression anywhere among the statements of the module refuses the module -/
theorem malformed_anywhere_refused (pre post : List (List Tok)) (t : List Tok)
    (h : evaluate (fun _ => false) t = none) : builderAccepts (pre ++ t :: post) = false := by
  simp [builderAccepts, h]

example : builderAccepts [[.feat "a"], [.feat "a", .or], [.feat "b"]] = false ∧
    builderAccepts [[.feat "a"], [.feat "a", .or, .feat "b"], [.not, .feat "b"]] = true := by decide

/-! ### nodes that an if-feature takes out of a case (Model/CaseIndex.lean) -/

section caseIndex
open YangVerif.CaseIndex

theorem mem_namesOf (cs : List Case) (n : String) :
    n ∈ namesOf cs ↔ ∃ c ∈ cs, ∃ x ∈ c.nodes, x.name = n := by
  simp [namesOf, List.mem_flatMap]

/-- **a node of a case is reachable by name from the holder of the choice exactly when its if-features hold**:
    for every choice, with any number of cases (explicit or shorthand) and nodes -/
theorem holder_index_exact (cs : List Case) (n : String) :
    n ∈ holderIndex cs ↔ ∃ c ∈ cs, ∃ x ∈ c.nodes, x.name = n ∧ x.on = true := by
  unfold holderIndex
  rw [mem_namesOf]
  constructor
  · rintro ⟨c, hc, x, hx, hn⟩
    simp only [enterChoice, List.mem_filter, List.mem_map] at hc
    obtain ⟨⟨c0, hc0, rfl⟩, _⟩ := hc
    simp only [enterCase, List.mem_filter] at hx
    exact ⟨c0, hc0, x, hx.1, hn, hx.2⟩
  · rintro ⟨c, hc, x, hx, hn, hon⟩
    refine ⟨enterCase c, ?_, x, ?_, hn⟩
    · simp only [enterChoice, List.mem_filter, List.mem_map]
      refine ⟨⟨c, hc, rfl⟩, ?_⟩
      have : x ∈ (enterCase c).nodes := by simp [enterCase, List.mem_filter, hx, hon]
      cases hnodes : (enterCase c).nodes with
      | nil => rw [hnodes] at this; simp at this
      | cons _ _ => simp
    · simp [enterCase, List.mem_filter, hx, hon]

/-- no node that is left out stays in a case, and no shorthand case outlives its node -/
theorem cases_hold_enabled_nodes_only (cs : List Case) :
    ∀ c ∈ enterChoice cs, (∀ x ∈ c.nodes, x.on = true) ∧ ¬ (c.implied = true ∧ c.nodes = []) := by
  intro c hc
  simp only [enterChoice, List.mem_filter, List.mem_map] at hc
  obtain ⟨⟨c0, _, rfl⟩, hkeep⟩ := hc
  refine ⟨?_, ?_⟩
  · intro x hx; simp only [enterCase, List.mem_filter] at hx; exact hx.2
  · rintro ⟨hi, hn⟩
    simp [hi, hn] at hkeep

/-- an explicit case stays, also when every node of it is left out -/
theorem explicit_case_stays (cs : List Case) (c : Case) (hc : c ∈ cs) (he : c.implied = false) :
    enterCase c ∈ enterChoice cs := by
  simp only [enterChoice, List.mem_filter, List.mem_map]
  exact ⟨⟨c, hc, rfl⟩, by simp [enterCase, he]⟩

/-- the pinned tree indexed the cases as written: `leaf knots { if-feature f; }` in a case, f off, is still found
    by name, and the shorthand case `short` stays behind empty; the repaired definitions have neither -/
theorem legacy_case_index_witness :
    let cs : List Case := [⟨"wood", false, [⟨"knots", false⟩, ⟨"w", true⟩]⟩, ⟨"short", true, [⟨"short", false⟩]⟩]
    "knots" ∈ holderIndexLegacy cs ∧ "knots" ∉ holderIndex cs ∧ "w" ∈ holderIndex cs ∧
    (enterChoiceLegacy cs).map (·.name) = ["wood", "short"] ∧ (enterChoice cs).map (·.name) = ["wood"] := by
  decide

end caseIndex

end YangVerif.C11
