/-
  C20 — a compiled schema is immutable shared state: concurrent use is race-free.

  The table is regenerated from /repo's source on every run (Gen/EffectTable.lean, by /verif/effects/cmd/vfx): the
  call graphs of the scenario's use tasks and load tasks with, per function, whether it contains a write to a
  package-level variable or to the compiled schema.  `scenario_table_ok` re-checks, in the kernel, that the
  regenerated table is closed under calls and that no function in it writes shared state.  The theorems then
  hold for every number of threads, every schedule and every length of execution: no write to shared memory
  ever happens, no two accesses race, the shared memory is the same afterwards, and every thread ends in the
  state it reaches when it runs alone for the same number of steps.
-/
import YangVerif.Proofs.Conc
import YangVerif.Gen.EffectTable
namespace YangVerif.C20
open YangVerif.Conc YangVerif.Gen.EffectTable

/-- the scenario's table: use phase first, load phase behind it -/
def scenario : Table := Table.ofPhases useFns loadFns useEntries loadEntries

/-- proof obligation re-checked against the current source: closed under calls, no shared write -/
theorem scenario_table_ok : scenario.ok = true := by decide +kernel

variable {δ : Type}

/-- every thread starts in an entry function of the table -/
def StartsAtEntries (t : Table) (s : Sys δ) : Prop := ∀ th ∈ s.ths, ∀ f ∈ th.stack, f ∈ t.entries

theorem good_of_entries (t : Table) (s : Sys δ) (h : StartsAtEntries t s) : GoodStacks t s :=
  fun th hth f hf => Reach.entry (h th hth f hf)

/-- general form: for any table that passes the check -/
theorem no_shared_write (t : Table) (hok : t.ok = true) (p : Prog δ) (hc : Conforms t p) (s : Sys δ)
    (hs : StartsAtEntries t s) (sched : List Nat) :
    (run p sched s).1.mem = s.mem ∧ ∀ e ∈ (run p sched s).2, e.isWrite = false :=
  let r := run_good t p hok hc sched s (good_of_entries t s hs)
  ⟨r.1, r.2.1⟩

theorem race_free (t : Table) (hok : t.ok = true) (p : Prog δ) (hc : Conforms t p) (s : Sys δ)
    (hs : StartsAtEntries t s) (sched : List Nat) : ¬ Races (run p sched s).2 := by
  intro ⟨a, ha, b, hb, _, _, hw⟩
  have h := (no_shared_write t hok p hc s hs sched).2
  cases hw with
  | inl h1 => rw [h a ha] at h1; cases h1
  | inr h1 => rw [h b hb] at h1; cases h1

/-- "each obtains exactly the result it obtains when run alone" -/
theorem same_as_alone (t : Table) (hok : t.ok = true) (p : Prog δ) (hc : Conforms t p) (s : Sys δ)
    (hs : StartsAtEntries t s) (sched : List Nat) (i : Nat) :
    (run p sched s).1.ths[i]? = (s.ths[i]?).map (alone p s.mem (countOf i sched)) :=
  run_thread t p hok hc sched s (good_of_entries t s hs) i

/-- the headline for the code as it is now: any program conforming to the regenerated table -/
theorem scenario_race_free (p : Prog δ) (hc : Conforms scenario p) (s : Sys δ) (hs : StartsAtEntries scenario s)
    (sched : List Nat) :
    ¬ Races (run p sched s).2 ∧ (run p sched s).1.mem = s.mem ∧
    ∀ i, (run p sched s).1.ths[i]? = (s.ths[i]?).map (alone p s.mem (countOf i sched)) :=
  ⟨race_free scenario scenario_table_ok p hc s hs sched,
   (no_shared_write scenario scenario_table_ok p hc s hs sched).1,
   fun i => same_as_alone scenario scenario_table_ok p hc s hs sched i⟩

/- ---- non-vacuity -/

/-- a table of three functions: 0 calls 1 and 2, nobody writes -/
def tiny : Table := { fns := [([1, 2], false), ([], false), ([1], false)], entries := [0], count := 3 }

/-- a program for it: function 0 reads location 7 then calls 1 or 2 by what it read; 1 returns; 2 calls 1 once -/
def tinyProg : Prog Nat := fun d f =>
  if f = 0 then
    (if d = 0 then .rd 7 (fun v => if v = 0 then 1 else 2)
     else if d = 1 then .call 1 3 else if d = 2 then .call 2 3 else .ret 9)
  else if f = 2 then (if d = 3 then .call 1 4 else .ret 5)
  else .ret 5

example : tiny.ok = true := by decide
theorem tinyProg_conforms : Conforms tiny tinyProg := by
  intro d f
  unfold tinyProg
  by_cases h0 : f = 0
  · by_cases d0 : d = 0
    · simp [h0, d0]
    · by_cases d1 : d = 1
      · simp [h0, d1, tiny, Table.callees]
      · by_cases d2 : d = 2
        · simp [h0, d2, tiny, Table.callees]
        · simp [h0, d0, d1, d2]
  · by_cases h2 : f = 2
    · by_cases d3 : d = 3
      · simp [h2, d3, tiny, Table.callees]
      · simp [h2, d3]
    · simp [h0, h2]
def tinySys : Sys Nat := { mem := fun _ => 1, ths := [{ d := 0, stack := [0] }, { d := 0, stack := [0] }] }
example : StartsAtEntries tiny tinySys := by
  intro th hth f hf
  simp only [tinySys, List.mem_cons, List.not_mem_nil, or_false] at hth
  rcases hth with rfl | rfl <;> simpa [tiny] using hf
/-- the two threads really do touch the same location -/
example : (run tinyProg [0, 1, 0, 1] tinySys).2 = [⟨0, 7, false⟩, ⟨1, 7, false⟩] := by
  simp [run, sysStep, stepThread, tinySys, tinyProg, evOf]

/-- the check refuses a table with a writing function, and such a program does race -/
def bad : Table := { fns := [([1], false), ([], true)], entries := [0], count := 2 }
example : bad.ok = false := by decide
def badProg : Prog Nat := fun d f =>
  if f = 0 then (if d = 0 then .call 1 1 else .ret 0) else if f = 1 then .wr 7 1 2 else .ret 0
example : Conforms bad badProg := by
  intro d f
  unfold badProg
  by_cases h0 : f = 0
  · by_cases d0 : d = 0
    · simp [h0, d0, bad, Table.callees]
    · simp [h0, d0]
  · by_cases h1 : f = 1
    · simp [h1, bad, Table.writes]
    · simp [h0, h1]
example : Races (run badProg [0, 0, 1, 1] { mem := fun _ => 0, ths := [{ d := 0, stack := [0] }, { d := 0, stack := [0] }] }).2 := by
  refine ⟨⟨0, 7, true⟩, ?_, ⟨1, 7, true⟩, ?_, by decide, rfl, Or.inl rfl⟩ <;>
    simp [run, sysStep, stepThread, badProg, evOf]

end YangVerif.C20
