/-
  C10 — value conversion is exact or fails; it never wraps, truncates or saturates.

  Property theorems only.  `Gen.toInt64Table`, `Gen.toUInt64Table`,
  `Gen.toDecimal64Table`, `Gen.narrowTable`, `Gen.convHelpers` are regenerated
  from /repo/val/conv.go on every run.
-/
import YangVerif.Proofs.Conv
import YangVerif.Gen.ConvTable
namespace YangVerif.C10
open YangVerif.Conv

/-! #### TIE (regenerated tables, closed by `decide`) -/

theorem toInt64_table_good : ∀ e ∈ Gen.toInt64Table, entryGood .i64 e = true := by decide
theorem toUInt64_table_good : ∀ e ∈ Gen.toUInt64Table, entryGood .u64 e = true := by decide
theorem narrow_table_good : ∀ e ∈ Gen.narrowTable, narrowGood e = true := by decide
theorem helpers_recognised : ∀ e ∈ Gen.convHelpers, e.2 = true := by decide
theorem toDecimal64_table_good : ∀ e ∈ Gen.toDecimal64Table, e.2.goodFloat = true := by decide

/-- every Go integer kind has a clause in both 64-bit helpers, every narrow target a wrapper -/
theorem tables_cover_all_kinds :
    (∀ k ∈ [GoInt.i8, .i16, .i32, .i64, .int, .u8, .u16, .u32, .u64, .uint],
      (lookupShape Gen.toInt64Table (.int k)).isSome = true ∧
      (lookupShape Gen.toUInt64Table (.int k)).isSome = true) ∧
    (∀ t ∈ [GoInt.i8, .i16, .i32, .u8, .u16, .u32],
      (Gen.narrowTable.find? (fun e => e.2.2.2.2 == t)).isSome = true) := by decide

/-- `Conv(FmtInt*/FmtUInt*, s)` as the code dispatches it today -/
def conv (target : GoInt) (s : Src) : Out :=
  convInt Gen.toInt64Table Gen.toUInt64Table Gen.narrowTable target s

/-! #### the property -/

/-- **exact or fails** — for every integer target, every source kind (any Go integer,
    float, string) and every value: a successful conversion returns exactly the number
    the source denotes, inside the target's range; there is no third outcome. -/
theorem conv_exact (target : GoInt) (s : Src) (hw : s.wf = true) :
    (∃ r, conv target s = .ok r ∧ s.denoteInt target.signed = some r ∧ target.inRange r = true)
    ∨ conv target s = .err :=
  convInt_sound _ _ _ toInt64_table_good toUInt64_table_good narrow_table_good target s hw

/-- never a different number -/
theorem conv_never_wrong (target : GoInt) (s : Src) (hw : s.wf = true) (r : Int)
    (h : conv target s = .ok r) : s.denoteInt target.signed = some r ∧ target.inRange r = true :=
  convInt_never_wrong _ _ _ toInt64_table_good toUInt64_table_good narrow_table_good target s hw r h

/-- out of range, negative into unsigned: an error — for every integer source kind -/
theorem conv_out_of_range_fails (target k : GoInt) (v : Int) (hk : k.inRange v = true)
    (hout : target.inRange v = false) : conv target (.int k v) = .err := by
  rcases conv_exact target (.int k v) (by simpa [Src.wf] using hk) with ⟨r, _, hd, hi⟩ | h
  · simp [Src.denoteInt] at hd; subst hd; rw [hi] at hout; cases hout
  · exact h

/-- a non-integral number into an integer type: an error -/
theorem conv_fraction_fails (target : GoInt) (m e : Int) (hfrac : floatIsWhole m e = false) :
    conv target (.float m e) = .err := by
  rcases conv_exact target (.float m e) rfl with ⟨r, _, hd, _⟩ | h
  · simp [Src.denoteInt, hfrac] at hd
  · exact h

/-- in range: the conversion succeeds with the same number (so reading it back gives the original) -/
theorem conv_in_range_succeeds (target k : GoInt) (v : Int)
    (ht : target ∈ [GoInt.i8, .i16, .i32, .i64, .u8, .u16, .u32, .u64])
    (hin : target.inRange v = true) : conv target (.int k v) = .ok v := by
  have hcov := tables_cover_all_kinds
  have hk : k ∈ [GoInt.i8, .i16, .i32, .i64, .int, .u8, .u16, .u32, .u64, .uint] := by
    cases k <;> simp
  apply convInt_int_complete _ _ _ toInt64_table_good toUInt64_table_good narrow_table_good target k v
    (hcov.1 k hk).1 (hcov.1 k hk).2 _ hin
  simp only [List.mem_cons, List.mem_nil_iff, or_false] at ht
  rcases ht with h | h | h | h | h | h | h | h
  all_goals first
    | (left; exact h)
    | (right; left; exact h)
    | (right; right; apply hcov.2; subst h; simp)

/-- list forms (`[]interface{}`, `[]string`, `[]float64`): element-wise, all or nothing -/
def convList (target : GoInt) (xs : List Src) : Option (List Int) :=
  xs.mapM fun s => match conv target s with | .ok r => some r | _ => none

theorem conv_list_exact (target : GoInt) (xs : List Src) (hw : ∀ s ∈ xs, s.wf = true) (rs : List Int)
    (h : convList target xs = some rs) :
    rs.length = xs.length ∧ ∀ i (hi : i < xs.length) (hi' : i < rs.length),
      (xs[i]).denoteInt target.signed = some rs[i] ∧ target.inRange rs[i] = true := by
  induction xs generalizing rs with
  | nil => simp [convList] at h; subst h; simp
  | cons s xs ih =>
    simp only [convList, List.mapM_cons] at h
    cases hc : conv target s with
    | ok r =>
      simp only [hc] at h
      cases hrest : (xs.mapM fun s => match conv target s with | .ok r => some r | _ => none) with
      | none => simp [hrest] at h
      | some rs' =>
        simp [hrest] at h; subst h
        have ih' := ih (fun s hs => hw s (List.mem_cons_of_mem _ hs)) rs' hrest
        refine ⟨by simp [ih'.1], ?_⟩
        intro i hi hi'
        cases i with
        | zero => exact conv_never_wrong target s (hw s (List.mem_cons_self ..)) r hc
        | succ i => exact ih'.2 i (by simpa using hi) (by simpa using hi')
    | err => simp [hc] at h
    | unspecified => simp [hc] at h

/-- decimal64 target: integer sources convert only when float64 holds them exactly -/
theorem toFloat_exact (sh : Shape) (hg : sh.goodFloat = true) (k : GoInt) (hk : sh = .toFloat k ∨ sh = .toFloatChecked k)
    (v : Int) (hv : k.inRange v = true) (r : Int) (h : runToFloat sh v = .ok r) :
    r = v ∧ representable53 v = true := by
  rcases hk with rfl | rfl
  · simp [runToFloat] at h; subst h
    refine ⟨rfl, ?_⟩
    simp [Shape.goodFloat] at hg
    unfold GoInt.inRange GoInt.lo GoInt.hi at hv
    have hb : v.natAbs < 2 ^ 32 + 1 := by
      cases k <;> simp [GoInt.signed, GoInt.bits] at hg hv <;> omega
    unfold representable53
    have : ∀ fuel n, oddPartFuel fuel n ≤ n := by
      intro fuel
      induction fuel with
      | zero => intro n; simp [oddPartFuel]
      | succ f ih =>
        intro n; unfold oddPartFuel
        split
        · exact Nat.le_trans (ih _) (Nat.div_le_self _ _)
        · exact Nat.le_refl _
    have := this 64 v.natAbs
    simp; omega
  · simp [runToFloat] at h
    by_cases hr : representable53 v = true
    · simp [hr] at h; exact ⟨h.symm, hr⟩
    · simp [hr] at h

/-! #### the shapes the tree had before `fix: val.Conv range-checks …` are not exact —
     kept so the check recognises the defect if it returns -/

theorem cast_wraps_witness :
    run (.cast .u8 .i8) (.int .u8 200) = .ok (-56) ∧
    run (.cast .i64 .i32) (.int .i64 (2 ^ 40)) = .ok 0 ∧
    run (.cast .int .u64) (.int .int (-1)) = .ok 18446744073709551615 ∧
    run (.cast .u32 .i32) (.int .u32 4000000000) = .ok (-294967296) := by decide

theorem trunc_witness : run (.truncS .i32) (.float 37 (-3)) ≠ .err ∧ floatIsWhole 37 (-3) = false := by decide

theorem unchecked_cast_not_good :
    entryGood .i64 (.int .u64, .cast .u64 .i64) = false ∧ entryGood .u64 (.int .int, .cast .int .u64) = false ∧
    entryGood .i64 (.f64, .truncS .i64) = false := by decide

/-! #### non-vacuity -/
example : conv .i8 (.int .u8 100) = .ok 100 := by decide
example : conv .i8 (.int .u8 200) = .err := by decide
example : conv .u64 (.int .int (-1)) = .err := by decide
example : conv .i32 (.float 37 (-3)) = .err := by decide     -- 4.625
example : conv .i32 (.float 3 2) = .ok 12 := by decide

end YangVerif.C10
