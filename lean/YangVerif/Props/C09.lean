/-
  C09 — at most one case of a choice ever holds data.
-/
import YangVerif.Proofs.Choice
namespace YangVerif.C09
open YangVerif.Choice

/-- **upsert preserves the invariant**: for every schema (several choices per container, choices
    nested in cases, shorthand cases, any depth), every conforming source and target: if every
    choice of the target has at most one case with data, so has the result. -/
theorem upsert_preserves_onecase (ks : List Schema) (new : Bool) (src tgt : List Data)
    (hs : conformsBody ks src = true) (ht : conformsBody ks tgt = true) (h : oneCaseBody tgt = true) :
    oneCaseBody (editKids new ks src tgt) = true :=
  oneCaseBody_editKids ks new src tgt hs ht h

/-- **every history**: starting from any tree that satisfies the invariant (e.g. the empty one),
    after any sequence of upserts the invariant holds -/
theorem onecase_after_any_history (ks : List Schema) : ∀ (docs : List (List Data)) (tgt : List Data),
    (∀ d ∈ docs, conformsBody ks d = true) → conformsBody ks tgt = true → oneCaseBody tgt = true →
    oneCaseBody (docs.foldl (fun t d => editKids false ks d t) tgt) = true ∧
    conformsBody ks (docs.foldl (fun t d => editKids false ks d t) tgt) = true
  | [], tgt, _, ht, h => ⟨by simpa using h, by simpa using ht⟩
  | d :: rest, tgt, hd, ht, h => by
    simp only [List.foldl_cons]
    have hdc := hd d (List.mem_cons_self ..)
    have hconf : conformsBody ks (editKids false ks d tgt) = true := by
      -- the result is shaped like the target
      have aux : ∀ (ks : List Schema) (new : Bool) (ds ts : List Data), conformsBody ks ds = true →
          conformsBody ks ts = true → conformsBody ks (editKids new ks ds ts) = true := by
        intro ks new ds ts h1 h2
        exact conformsBody_editKids ks new ds ts h1 h2
      exact aux ks false d tgt hdc ht
    exact onecase_after_any_history ks rest _ (fun x hx => hd x (List.mem_cons_of_mem _ hx)) hconf
      (upsert_preserves_onecase ks false d tgt hdc ht h)

/-- the surviving case is the one the source wrote: every other case of that choice is empty -/
theorem upsert_selects_src_case (cs : List (List Schema)) (new : Bool) (sbs tbs : List (List Data)) (i : Nat)
    (hs : conformsCases cs sbs = true) (ht : conformsCases cs tbs = true) (hc : chooseIdx sbs = some i) :
    chooseIdx (editCases new cs sbs tbs (some i)) = some i :=
  chooseIdx_editCases cs new sbs tbs i hs ht hc

/-- a source without data in any case neither writes nor clears anything in that choice -/
theorem no_source_case_no_change (cs : List (List Schema)) (new : Bool) (sbs tbs : List (List Data))
    (hc : chooseIdx sbs = none) : edit new (.choice cs) (.choice sbs) (.choice tbs) = .choice tbs := by
  simp [edit, hc, editCases]

/-- **a read reports the nodes of one case only**, whatever the store holds -/
theorem read_reports_one_case (ks : List Schema) (body : List Data) (h : conformsBody ks body = true) :
    oneCaseBody (readOut ks body) = true :=
  oneCaseBody_editKids ks false body (emptyBody ks) h (conformsBody_emptyBody ks) (oneCaseBody_emptyBody ks)

/-! #### the pinned tree looked at the innermost choice only — witness -/

/-- outer choice { case A { inner choice { case A1 { a1 } case A2 { a2 } } } case B { b } }:
    target holds b, the source writes a1: legacy leaves both cases of the outer choice with data -/
def wSchema : List Schema := [.choice [[.choice [[.leaf none], [.leaf none]]], [.leaf none]]]
def wTgt : List Data := [.choice [[.choice [[.leaf none], [.leaf none]]], [.leaf (some "b")]]]
def wSrc : List Data := [.choice [[.choice [[.leaf (some "a1")], [.leaf none]]], [.leaf none]]]

theorem legacy_nested_choice_witness :
    oneCaseBody wTgt = true ∧ oneCaseBody (editKidsL false wSchema wSrc wTgt) = false ∧
    oneCaseBody (editKids false wSchema wSrc wTgt) = true := by decide

example : conformsBody wSchema wSrc = true ∧ conformsBody wSchema wTgt = true := by decide

end YangVerif.C09
