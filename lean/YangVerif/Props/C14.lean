/-
  C14 — loading any text terminates with a module or an error.

  What a theorem can carry here is the part of loading that decides termination by its own logic: following
  imports.  `Imports.resolveImports` is a port of meta/resolver.go `module`; Lean accepts it only with a
  termination proof, and the theorems say that its fuel is never exhausted (so the recursion is bounded by
  the number of modules, for every import graph) and that an import of a module on the current chain is
  reported as a cycle.  Everything else of C14 (arbitrary bytes, faults of the opener) is a search for
  crashing inputs in child processes — partial, see DESIGN.md.
-/
import YangVerif.Model.Imports
namespace YangVerif.C14
open YangVerif.Imports

theorem unloaded_mono (g : Graph) (l l' : List String) (h : ∀ x, l.contains x = true → l'.contains x = true) :
    unloaded g l' ≤ unloaded g l := by
  induction g with
  | nil => simp [unloaded]
  | cons p r ih =>
    simp only [unloaded]
    by_cases h1 : l.contains p.1 = true
    · simp only [h1, h _ h1, if_true]; omega
    · by_cases h2 : l'.contains p.1 = true
      · simp only [h1, h2, if_true, Bool.false_eq_true, if_false]; omega
      · simp only [h1, h2, Bool.false_eq_true, if_false]; omega

theorem contains_cons_of (l : List String) (i x : String) (h : l.contains x = true) : (i :: l).contains x = true := by
  simp only [List.contains_cons, Bool.or_eq_true]; exact Or.inr h

theorem unloaded_add (g : Graph) (l : List String) (i : String) (imps : List String)
    (hin : importsOf g i = some imps) (hnot : l.contains i = false) : unloaded g (i :: l) + 1 ≤ unloaded g l := by
  induction g with
  | nil => simp [importsOf] at hin
  | cons p r ih =>
    simp only [unloaded]
    by_cases hp : p.1 = i
    · have h1 : (i :: l).contains p.1 = true := by rw [hp]; simp
      have h2 : l.contains p.1 = false := by rw [hp]; exact hnot
      have := unloaded_mono r l (i :: l) (fun x hx => contains_cons_of l i x hx)
      simp only [h1, h2, if_true, Bool.false_eq_true, if_false]
      omega
    · have hin' : importsOf r i = some imps := by
        simp only [importsOf, List.find?_cons] at hin ⊢
        have : decide (p.1 = i) = false := by simp [hp]
        simpa [this] using hin
      have ihr := ih hin'
      by_cases h1 : l.contains p.1 = true
      · simp only [h1, contains_cons_of l i _ h1, if_true]; omega
      · have h2 : (i :: l).contains p.1 = false := by
          simp only [List.contains_cons, Bool.or_eq_false_iff]
          refine ⟨by simp [hp], by simpa using h1⟩
        simp only [h1, h2, Bool.false_eq_true, if_false]; omega

theorem ri_nil (g : Graph) (f : Nat) (r l : List String) : resolveImports g f r l [] = (.ok, l) := by
  rw [resolveImports.eq_def]

theorem ri_cycle (g : Graph) (f : Nat) (r l : List String) (i : String) (rest : List String)
    (h : r.contains i = true) : resolveImports g f r l (i :: rest) = (.cycle, l) := by
  rw [resolveImports.eq_def]; simp only [h, if_true]

theorem ri_loaded (g : Graph) (f : Nat) (r l : List String) (i : String) (rest : List String)
    (h1 : r.contains i = false) (h2 : l.contains i = true) :
    resolveImports g f r l (i :: rest) = resolveImports g f r l rest := by
  rw [resolveImports.eq_def]; simp only [h1, h2, if_true, Bool.false_eq_true, if_false]

theorem ri_missing (g : Graph) (f : Nat) (r l : List String) (i : String) (rest : List String)
    (h1 : r.contains i = false) (h2 : l.contains i = false) (h3 : importsOf g i = none) :
    resolveImports g f r l (i :: rest) = (.missing, l) := by
  rw [resolveImports.eq_def]; simp only [h1, h2, h3, Bool.false_eq_true, if_false]

theorem ri_descend (g : Graph) (f : Nat) (r l : List String) (i : String) (rest imps : List String)
    (h1 : r.contains i = false) (h2 : l.contains i = false) (h3 : importsOf g i = some imps) :
    resolveImports g (f + 1) r l (i :: rest) =
      match resolveImports g f (i :: r) (i :: l) imps with
      | (.ok, loaded') => resolveImports g (f + 1) r loaded' rest
      | bad => bad := by
  rw [resolveImports.eq_def]; simp only [h1, h2, h3, Bool.false_eq_true, if_false]; rfl

/-- **the recursion is bounded by the number of modules**: with fuel at least the number of modules not yet
    loaded, following imports never runs out of fuel, and never unloads anything — for every import graph,
    cyclic or not -/
theorem never_out_of_fuel (g : Graph) (fuel : Nat) (resolving loaded imps : List String) :
    unloaded g loaded ≤ fuel →
    (resolveImports g fuel resolving loaded imps).1 ≠ .outOfFuel ∧
    ∀ x, loaded.contains x = true → (resolveImports g fuel resolving loaded imps).2.contains x = true := by
  induction fuel, resolving, loaded, imps using resolveImports.induct g with
  | case1 f r l => intro _; rw [ri_nil]; exact ⟨by simp, fun x hx => hx⟩
  | case2 f r l i rest hres => intro _; rw [ri_cycle g f r l i rest hres]; exact ⟨by simp, fun x hx => hx⟩
  | case3 f r l i rest hres hl ih =>
    intro hf
    rw [ri_loaded g f r l i rest (by simpa using hres) hl]
    exact ih hf
  | case4 f r l i rest hres hl hnone =>
    intro _
    rw [ri_missing g f r l i rest (by simpa using hres) (by simpa using hl) hnone]
    exact ⟨by simp, fun x hx => hx⟩
  | case5 r l i rest hres hl imps himp =>
    intro hf
    have hl' : l.contains i = false := by simpa using hl
    have := unloaded_add g l i imps himp hl'
    omega
  | case6 r l i rest hres hl imps himp f loaded' hok ih1 ih2 =>
    intro hf
    have hl' : l.contains i = false := by simpa using hl
    have hadd := unloaded_add g l i imps himp hl'
    have h1 := ih1 (by omega)
    rw [hok] at h1
    have hsub : ∀ x, l.contains x = true → loaded'.contains x = true :=
      fun x hx => h1.2 x (contains_cons_of l i x hx)
    have hmono := unloaded_mono g l loaded' hsub
    have h2 := ih2 (by omega)
    rw [ri_descend g f r l i rest imps (by simpa using hres) hl' himp, hok]
    exact ⟨h2.1, fun x hx => h2.2 x (hsub x hx)⟩
  | case7 r l i rest hres hl imps himp f hbad ih1 =>
    intro hf
    have hl' : l.contains i = false := by simpa using hl
    have hadd := unloaded_add g l i imps himp hl'
    have h1 := ih1 (by omega)
    rw [ri_descend g f r l i rest imps (by simpa using hres) hl' himp]
    cases hr : resolveImports g f (i :: r) (i :: l) imps with
    | mk v l2 =>
      rw [hr] at h1
      cases v with
      | ok => exact absurd hr (hbad l2)
      | cycle => exact ⟨by simp, fun x hx => h1.2 x (contains_cons_of l i x hx)⟩
      | missing => exact ⟨by simp, fun x hx => h1.2 x (contains_cons_of l i x hx)⟩
      | outOfFuel => exact absurd rfl h1.1

/-- **loading terminates with a verdict for every import graph**: the fuel `load` starts with suffices -/
theorem load_never_out_of_fuel (g : Graph) (main : String) : load g main ≠ .outOfFuel := by
  unfold load
  cases h : importsOf g main with
  | none => simp
  | some imps =>
    have hle : unloaded g [main] ≤ g.length := by
      have : ∀ (g : Graph) (l : List String), unloaded g l ≤ g.length := by
        intro g l
        induction g with
        | nil => simp [unloaded]
        | cons p r ih => simp only [unloaded, List.length_cons]; split <;> omega
      exact this g [main]
    exact (never_out_of_fuel g g.length [main] [main] imps hle).1

/-- **an import of a module whose imports are being resolved is reported as a cycle** — a module importing
    itself or any module up the chain; nothing more is loaded -/
theorem import_of_ancestor_is_cycle (g : Graph) (fuel : Nat) (resolving loaded : List String) (i : String) (rest : List String)
    (h : resolving.contains i = true) : resolveImports g fuel resolving loaded (i :: rest) = (.cycle, loaded) :=
  ri_cycle g fuel resolving loaded i rest h

/-- a module that is already loaded (a diamond) is not loaded again -/
theorem loaded_is_reused (g : Graph) (fuel : Nat) (resolving loaded : List String) (i : String) (rest : List String)
    (h1 : resolving.contains i = false) (h2 : loaded.contains i = true) :
    resolveImports g fuel resolving loaded (i :: rest) = resolveImports g fuel resolving loaded rest :=
  ri_loaded g fuel resolving loaded i rest h1 h2

end YangVerif.C14
