/-
  C05 — no write stores a value outside the leaf's effective type.
  Property theorems only; lemmas in Proofs/Range.lean.
-/
import YangVerif.Proofs.Range
import YangVerif.Model.Member
namespace YangVerif.C05
open YangVerif.Range YangVerif.Member

/-- **accepted ⇒ in type** (numbers): a value that passes the check lies inside some
    alternative of the restriction of *every* level of the typedef chain; `min`/`max`
    mean the bounds of the base type.  For every restriction, every chain, every value. -/
theorem accept_sound (tlo thi : Int) (levels : List Range) (v : Int) (hlo : tlo ≤ v) (hhi : v ≤ thi)
    (h : levelsCheck levels v = true) : inType tlo thi levels v := by
  refine ⟨hlo, hhi, ?_⟩
  intro r hr
  unfold levelsCheck at h
  have hr' := List.all_eq_true.1 h r hr
  unfold rangeCheck at hr'
  simp only [Bool.or_eq_true] at hr'
  rcases hr' with he | ha
  · left; simpa using he
  · right
    obtain ⟨e, he, hc⟩ := List.any_eq_true.1 ha
    exact ⟨e, he, entryCheck_sound tlo thi e v hlo hhi hc⟩

/-- conversely a value of the type is accepted (so the check is not vacuous), for
    restrictions as the parser produces them -/
theorem accept_complete (tlo thi : Int) (levels : List Range) (v : Int)
    (hwf : ∀ r ∈ levels, ∀ e ∈ r, e.wf = true) (h : inType tlo thi levels v) :
    levelsCheck levels v = true := by
  unfold levelsCheck
  apply List.all_eq_true.2
  intro r hr
  unfold rangeCheck
  rcases h.2.2 r hr with hnil | ⟨e, he, hc⟩
  · simp [hnil]
  · simp only [Bool.or_eq_true]; right
    exact List.any_eq_true.2 ⟨e, he, entryCheck_complete tlo thi e v (hwf r hr e he) hc⟩

/-- the driver's oracle is the specification -/
theorem inTypeB_iff (tlo thi : Int) (levels : List Range) (v : Int) :
    inTypeB tlo thi levels v = true ↔ inType tlo thi levels v := by
  unfold inTypeB inType
  simp only [Bool.and_eq_true, decide_eq_true_eq, List.all_eq_true, Bool.or_eq_true, List.any_eq_true,
    List.isEmpty_iff, altContainsB_iff]
  constructor
  · rintro ⟨⟨h1, h2⟩, h3⟩; exact ⟨h1, h2, h3⟩
  · rintro ⟨h1, h2, h3⟩; exact ⟨⟨h1, h2⟩, h3⟩

/-- each element of a leaf-list is checked individually -/
theorem list_each_element (levels : List Range) (vs : List Int) :
    listCheck levels vs = true ↔ ∀ v ∈ vs, levelsCheck levels v = true := by
  unfold listCheck; exact List.all_eq_true

/-- a rejected write stores nothing; an accepted write stores exactly the checked value -/
theorem reject_frame {α : Type} (check : α → Bool) (st : Store α) (v : α)
    (h : (setLeaf check st v).1 = false) : (setLeaf check st v).2 = st := by
  unfold setLeaf at *
  by_cases hc : check v = true <;> simp [hc] at h ⊢

theorem accept_stores_checked {α : Type} (check : α → Bool) (st : Store α) (v : α)
    (h : (setLeaf check st v).1 = true) : check v = true ∧ (setLeaf check st v).2.leaf = some v := by
  unfold setLeaf at *
  by_cases hc : check v = true <;> simp [hc] at h ⊢

/-- so: whatever was stored by a write went through the check, hence is in the type -/
theorem stored_in_type (tlo thi : Int) (levels : List Range) (st : Store Int) (v : Int)
    (hlo : tlo ≤ v) (hhi : v ≤ thi)
    (h : (setLeaf (levelsCheck levels) st v).1 = true) : inType tlo thi levels v :=
  accept_sound tlo thi levels v hlo hhi (accept_stores_checked _ st v h).1

/-- enum / bits / identityref / union membership at conversion time -/
theorem enum_accept_declared (decl : List (String × Int)) (label : String) (e : String × Int)
    (h : enumByLabel decl label = some e) : e ∈ decl ∧ e.1 = label := by
  unfold enumByLabel at h
  exact ⟨List.mem_of_find?_eq_some h, by simpa using List.find?_some h⟩

theorem enum_id_accept_declared (decl : List (String × Int)) (id : Int) (e : String × Int)
    (h : enumById decl id = some e) : e ∈ decl ∧ e.2 = id := by
  unfold enumById at h
  exact ⟨List.mem_of_find?_eq_some h, by simpa using List.find?_some h⟩

theorem bits_accept_declared (decl : List (String × Nat)) (names r : List String)
    (h : bitsByNames decl names = some r) :
    r = names.filter (· ≠ "") ∧ ∀ n ∈ r, ∃ d ∈ decl, d.1 = n := by
  unfold bitsByNames at h
  by_cases hall : names.all (fun n => n == "" || decl.any (·.1 == n)) = true
  · simp only [hall, if_true, Option.some.injEq] at h
    subst h
    refine ⟨rfl, ?_⟩
    intro n hn
    have hm := List.mem_filter.1 hn
    have := List.all_eq_true.1 hall n hm.1
    simp only [Bool.or_eq_true, beq_iff_eq, List.any_eq_true] at this
    simp only [ne_eq, decide_not, Bool.not_eq_eq_eq_not, Bool.not_true, decide_eq_false_iff_not] at hm
    rcases this with h0 | ⟨d, hd, he⟩
    · exact absurd h0 hm.2
    · exact ⟨d, hd, he⟩
  · simp [hall] at h

theorem ident_accept_derived (derived : List String) (s r : String)
    (h : identByName derived s = some r) : r ∈ derived := by
  unfold identByName at h
  by_cases hc : derived.contains (stripPrefix s) = true
  · rw [if_pos hc] at h
    have : stripPrefix s = r := by simpa using h
    rw [← this]; simpa using hc
  · rw [if_neg hc] at h; cases h

/-- **an accepted identityref value is derived from every base of the type**, and a type has at least one -/
theorem ident_accept_every_base (closures : List (List String)) (s r : String)
    (h : identByBases closures s = some r) : closures ≠ [] ∧ ∀ c ∈ closures, r ∈ c := by
  simp only [identByBases, identOfBases] at h
  by_cases hc : (!closures.isEmpty && closures.all (·.contains (stripPrefix s))) = true
  · rw [if_pos hc] at h
    simp only [Bool.and_eq_true, Bool.not_eq_eq_eq_not, Bool.not_true, List.isEmpty_eq_false_iff, List.all_eq_true] at hc
    have hr : stripPrefix s = r := by simpa using h
    subst hr
    exact ⟨hc.1, fun c hcm => by simpa using hc.2 c hcm⟩
  · rw [if_neg hc] at h; cases h

/-- a name that one of the bases does not derive is refused, whatever the other bases say -/
theorem ident_refuse_missing_base (pre post : List (List String)) (c : List String) (s : String)
    (h : c.contains (stripPrefix s) = false) : identByBases (pre ++ c :: post) s = none := by
  simp only [identByBases, identOfBases]
  have : (pre ++ c :: post).all (·.contains (stripPrefix s)) = false := by
    simp only [List.all_append, List.all_cons, h, Bool.false_and, Bool.and_false]
  rw [this]
  simp

example : identOfBases [["d1", "d12", "dd"], ["d2", "d12", "dd"]] "d12" = some "d12" ∧
    identOfBases [["d1", "d12", "dd"], ["d2", "d12", "dd"]] "d1" = none ∧ identOfBases [["d1", "d12"]] "base1" = none := by decide

theorem union_accept_member {α β : Type} (members : List (α → Option β)) (v : α) (r : β)
    (h : unionFirst members v = some r) : ∃ m ∈ members, m v = some r := by
  unfold unionFirst at h
  exact List.exists_of_findSome?_eq_some h

/-! #### defects that were in the pinned tree (kept as witnesses) and the one that remains -/

/-- levels OR-ed: `typedef pct 0..100`, leaf `pct { range 10..20 }` accepted 50 -/
theorem levels_or_witness :
    levelsCheckLegacyOr [[⟨.num 10, .num 20, .empty⟩], [⟨.num 0, .num 100, .empty⟩]] 50 = true ∧
    ¬ inType 0 255 [[⟨.num 10, .num 20, .empty⟩], [⟨.num 0, .num 100, .empty⟩]] 50 := by
  constructor
  · decide
  · rw [← inTypeB_iff]; decide

/-- undeclared bit names were dropped instead of rejected -/
theorem bits_dropped_witness :
    bitsByNamesLegacy [("a", 0), ("b", 1)] ["a", "zz"] = some ["a"] ∧
    bitsByNames [("a", 0), ("b", 1)] ["a", "zz"] = none := by decide

/-- KNOWN FINDING patterns-ored: the code accepts when ONE pattern is satisfied; RFC 7950
    demands all.  Full statement `patternCheckOr sat = patternCheckAnd sat` is false: -/
theorem pattern_or_witness : patternCheckOr [true, false] = true ∧ patternCheckAnd [true, false] = false := by decide

/-- what holds today: with at most one pattern in effect the two coincide -/
theorem pattern_accept_sound_partial (sat : List Bool) (h : sat.length ≤ 1) :
    patternCheckOr sat = patternCheckAnd sat := by
  match sat, h with
  | [], _ => rfl
  | [b], _ => cases b <;> rfl

/-! #### parser: min/max and alternatives (concrete renderings; the parser is total by construction) -/
theorem parse_examples :
    parseRange 0 "min..10" = some [⟨.min, .num 10, .empty⟩] ∧
    parseRange 0 " 1 .. 5 | 7 | 10..max" = some [⟨.num 1, .num 5, .empty⟩, ⟨.empty, .empty, .num 7⟩, ⟨.num 10, .max, .empty⟩] ∧
    parseRange 2 "-1.5..2" = some [⟨.num (-150), .num 200, .empty⟩] ∧
    parseRange 0 "1..x" = none := by decide

/-! #### non-vacuity -/
example : levelsCheck [[⟨.num 10, .num 20, .empty⟩], [⟨.num 0, .num 100, .empty⟩]] 15 = true := by decide
example : levelsCheck [[⟨.num 10, .num 20, .empty⟩], [⟨.num 0, .num 100, .empty⟩]] 50 = false := by decide
example : levelsCheck [[⟨.min, .num 10, .empty⟩]] (-128) = true := by decide

end YangVerif.C05
