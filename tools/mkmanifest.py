#!/usr/bin/env python3
"""Regenerates /verif/MANIFEST.json from the table below (kept in one place so the
manifest is always valid and current)."""
import json, os
HERE = os.path.dirname(os.path.dirname(os.path.abspath(__file__)))
props = [json.loads(l)["id"] for l in open(os.path.join(HERE, "properties.jsonl"))]

# id -> (technique, level text, level note, design section)
claimed = {
 "C03": ("Lean 4 theorems over a port of node/edit.go (editor model on schema-shaped data trees, mutual structural recursion) against a keyed-deep-merge specification; correspondence on generated (schema, source, target, strategy, entry point) over 4 source and 3 target node implementations with an independent reference store",
         "Theorems (every schema, every pair of conforming trees of any depth): upsert = keyed deep merge (leaves overwrite, containers merge, entries matched by key else appended, created nodes get defaults); insert = the merge iff nothing exists at the level being inserted else conflict; update = the merge iff everything addressed exists else not-found; frame for unmentioned children and unmentioned list keys; the result conforms again. Tie: ~2 400 (quick) / 180 000 (thorough) generated edits; status and the complete target tree, re-read independently of the library, are compared with the model and the specification.",
         "Trusted: Lean kernel, harness, reference store (implements the store contract the model assumes). Model is hand-written. Not modelled: choice/case (C09), partial effects of a failed insert/update (the editor is not atomic; only the error class is compared). Known finding: map-backed lists with compound keys.",
         "DESIGN.md §8 C03"),
 "C08": ("Lean 4 theorems over the path text codec (QueryEscape/QueryUnescape on bytes, segment and path splitting) and keyed lookup; correspondence of Path.String with the model renderer and Find on every node of generated trees with a hostile key alphabet",
         "Theorems (every byte string as key, every path length, compound keys): unescape∘escape = id; escaped text contains no separator; parsePath(renderPath segs) = segs, also with a trailing slash; lookup by key finds exactly present keys. Tie: for every container and entry of generated trees — Find plain / trailing slash / module-qualified / with query / through ../ from another selection; content of the selection; its rendered path re-found; absent key/container → no selection; unknown name → not-found; store unchanged; Path.String compared with the model renderer.",
         "Trusted: Lean kernel, harness; net/url escaping is modelled (not imported) and tied by the generated keys. find_locates over the schema walk (findSlice) is carried by the correspondence, not by a theorem.",
         "DESIGN.md §8 C08"),
 "C18": ("Lean 4 theorems over delete / replace / merge on the shared data model, invariant lifted to all histories by induction over the operation list; correspondence on operation sequences with store re-read and Find after every step",
         "Theorems: delete of an entry removes exactly it (lookup gives none, every other key keeps its entry, siblings untouched); delete of a container/list empties exactly that child; replace = exactly the supplied content with defaults, independent of the old content; upsert of an existing key merges and never appends; every operation preserves 'conforming ∧ no list holds two entries with equal keys at any depth', hence every history does; an entry is found under its own key. Tie: sequences of 1–12 operations at root/container/entry locations on the reference store and on reflection over maps, compared with the model after each step.",
         "Trusted: Lean kernel, harness, reference store. Histories end at their first failing request (partial effects of a failed edit are unspecified). Slice/struct-backed reflection targets are not yet in the sequence stream.",
         "DESIGN.md §8 C18"),
 "C04": ("Lean 4 theorems: export (the editor's walk into a fresh target) = the data plus defaults of created nodes, from the C03 editor/merge theorems; JSON reader∘writer = id on tokens and strings from the C15 theorems; correspondence of export from 3 source implementations and of the write→read→upsert round trip in 4 configurations",
         "Theorems (every schema, every conforming tree with unique keys): editKids upsert src (empty) = withDefaults src — every set leaf, existing container and entry exactly once, entries in source order with their keys, nothing else but defaults below created nodes; token-level JSON round trip and string round trip. Tie: generated schemas with every leaf type (64-bit extremes, decimal64, empty, enum, bits, identityref, union, leaf-lists, defaults, imported grouping): export from reference store / reflection over maps / nodeutil.Node into a fresh store compared with model and Spec; JSONWtr (compact/pretty × qualified/unqualified) → ReadJSON → UpsertFrom compared with the original.",
         "Trusted: Lean kernel, harness, reference store. Leaf values are compared through the library's own canonical text (val.String()); exactness of the values themselves is C10. Choices are covered by C09, not here.",
         "DESIGN.md §8 C04"),
 "C05": ("Lean 4 theorems over the range/length/pattern/membership check model (hand-written port of meta.Range*/fieldConstraints/NewValue front end); correspondence on generated modules through three write paths with store before/after comparison",
         "Theorems (every restriction, every typedef chain, every value): a value accepted by the check lies in an alternative of the restriction of every level (min/max = base-type bounds); conversely well-formed restrictions accept every member; each leaf-list element is checked on its own; a rejected write leaves the store unchanged and an accepted one stores the checked value; enum/bits/identityref/union acceptance implies declared membership. Tie: generated modules (all numeric bases, decimal64, string length, chains of depth 0-3, min/max, alternatives) × boundary candidate values × SetValue / UpsertFrom(JSON) / UpsertFrom(node), outcome and store compared with model and oracle.",
         "Trusted: Lean kernel, harness, regexp (uninterpreted predicate), float64 order on ≤2-fraction-digit decimals. Model is hand-written (no translator); patterns OR-ed is a recorded known finding (pinned by the repo's own test); union member restrictions are not enforced by the library and are outside the generated cases.",
         "DESIGN.md §8 C05"),
 "C09": ("Lean 4 theorems over a model of choice handling in the editor (clear every other case at every enclosing choice, merge into the written case; reads descend into the chosen case only), invariant proved by mutual structural induction and lifted to histories; correspondence on upsert histories over 3 source and 3 target implementations",
         "Theorems (every schema with choices at any depth, nested in cases, several per container): upsert preserves 'every choice has at most one case with data'; hence after every history of upserts; the surviving case is the one the source wrote; a source without data in any case changes nothing; a read reports one case only whatever the store holds; witness of the pinned tree's innermost-only clearing. Tie: histories of 1–8 upserts alternating cases (root and inside a list entry), full target re-read and compared with the model after each step, invariant checked on the real store, reads of two-case stores compared with the model's read.",
         "Trusted: Lean kernel, harness, reference store (Choose = first case in sorted ident order with data). Lists inside cases are not in the model. The theorems assume the target satisfied the invariant before the step.",
         "DESIGN.md §8 C09"),
 "C10": ("Lean 4 theorems over the Conv dispatch model; go/ast translator regenerates the per-source-kind clause tables of toInt64/toUInt64/toDecimal64, the narrowing wrappers and range-check helpers; full boundary-matrix correspondence against val.Conv",
         "Theorems (all 8 integer targets, all Go integer kinds, floats as exact dyadics, decimal strings, every value): a successful conversion returns exactly the denoted number inside the target range; out-of-range, negative-into-unsigned and fractional sources are errors; in-range integer sources succeed; list forms are element-wise all-or-nothing; integer->decimal64 only when float64 holds the number exactly. Tie: clause tables regenerated from val/conv.go each run and closed by `decide`; the complete boundary matrix (targets × source kinds × boundary values) is diffed against the model in the quick tier.",
         "Trusted: Lean kernel, extractor (regex on gofmt-normalised clauses; unknown = opaque), harness; strconv.Parse*, math.Trunc, float64(int64) rounding (assumed contracts exercised by the correspondence). Partial: enum/bits/identityref/union front end (node.NewValue) is checked under C05; float64->string rounding is a recorded known finding.",
         "DESIGN.md §8 C10"),
 "C11": ("Lean 4 theorem: the ported stack evaluator (loop + greedy flag + nested calls, fuel-indexed, fuel proved sufficient) computes the RFC 7950 meaning of every expression of the grammar under every assignment; exhaustive enumeration correspondence through LoadModule",
         "Theorem eval_eq_sem: for every if-feature expression of the RFC 7950 grammar (unbounded size/nesting) and every feature assignment, evaluate(tokens e) = sem e — by mutual structural induction over the grammar with a fuel-monotonicity and fuel-sufficiency argument; cache transparency, allow/deny/all-on configurations, several-if-feature conjunction; witnesses of the pinned tree's defects. Tie: ALL expressions with ≤3 (quick) / ≤4 (thorough) operators × 2 renderings × 8 assignments loaded as guarded leaves and compared with model and Spec; all token sequences up to length 4/5 as malformed stream against the RFC recogniser; every guardable statement kind; one deviation of each kind with a frame check on the full schema dump.",
         "Trusted: Lean kernel, harness; tokenizer model tied by the renderings only; parseRFC (Spec recogniser) not proved complete; guard_iff_present and deviation exactness are carried by the correspondence (finite, enumerated), not by a theorem.",
         "DESIGN.md §8 C11"),
 "C12": ("Lean 4 theorems over a bracket model of editor.enter / beginEdit / endEdit / Delete (scenario tree replayed with callback k failing), by mutual structural induction over the scenario; exhaustive fault enumeration per scenario against recording, fault-injecting reference stores",
         "Theorems (every scenario tree of any nesting and bubbling depth, every failing position k, every node x): the running Begin/End balance of x never goes negative and ends at zero (each successful Begin is followed by exactly one End before the call returns); the call succeeds iff no callback failed; after the failing callback only End notifications follow; witnesses of the pinned tree's missing Ends. Tie: each generated scenario (upsert/insert/update/replace/delete × entry point with 0–3 ancestors) runs fault-free to learn K and its bracket tree, then K times with callback k failing; every faulted trace and result must equal the model's, and errors.As must find the injected error.",
         "Trusted: Lean kernel, harness, recording reference stores; the scenario tree is parsed from the real fault-free trace (so the model predicts faulted runs from the fault-free one). Not covered: Choose callbacks (no choices in these scenarios; target Choose errors are swallowed by design of clearOnDifferentChoiceCase), trigger-table callbacks, scenarios whose fault-free run fails (conflict/not-found).",
         "DESIGN.md §8 C12"),
 "C15": ("Lean 4 theorems: string escaper round trip on Unicode scalars; the streaming writer (per-level first flag, driven by the editor's write callbacks) produces the rendering of the intended value; an RFC 8259 token reader returns exactly the rendered value (mutual structural induction over the nested JSON value type); byte-level correspondence with JSONWtr and encoding/json as independent reader",
         "Theorems (every string, every nesting of containers/lists/leaf-lists, empty ones included): unescape(escape s) = s; writeDoc ms = render(obj(toJSON ms)); parseDoc(render v) = v (hence exactly one well-formed value that decodes to the intended one, also as a prefix of a longer text). Tie: all 8 configurations × start selections (root, container, list, entry) on generated schemas with every leaf type and nodes of an imported module: output decoded by encoding/json and compared with the expected RFC 7951 value; compact output compared byte-for-byte with the Lean model; pretty = compact modulo white space; output stream failing at every byte position must surface as an error.",
         "Trusted: Lean kernel, harness, encoding/json (byte-level lexing is not in Lean: tokens → bytes is tied by the correspondence); number formatting (strconv) passes through as text. 64-bit integers are expected as JSON numbers as the library documents.",
         "DESIGN.md §8 C15"),
 "C19": ("Lean 4 theorems: XML character-data escaper/reference-decoder round trip; element tree ⇄ token stream with namespace declarations (compact and indented) by mutual structural induction; XMLWtr2 (tree builder) and XMLWtr (streaming) both produce the encoding of the data; XmlNode reading of that encoding returns the data; interleaving invariance; byte-level correspondence of both writers and reader correspondence on interleaved / foreign-namespace / namespace-less documents",
         "Theorems (every text of XML-legal characters, every schema with distinct sibling qualified names, every conforming tree, any nesting): unescapeText(escapeText s) = s and the escaped text holds no '<', '>' or raw CR; parseDoc(render e) = e (well-formed, single root, namespaces resolved) and parseDoc(renderP e) = e decorated with indentation outside leaf text only; doc2 = docStream = render(docOf data); readBody schema (toXMLBody schema data) = data (also through write→parse→read for all three outputs); readBody depends on siblings only through the per-name subsequences; an element with a namespace is taken for a node iff local name and namespace agree. Tie: generated schemas (all leaf types, leaf-lists, lists, choices, imported grouping, augment) × trees with hostile strings: output parsed by encoding/xml (strict) and compared with the expected element tree; bytes compared with the three Lean writer models; ReadXMLDoc+UpsertFrom compared with the original and with the Lean reader model on 4 document variants; patch/xml EscapeText compared with the Lean escaper.",
         "Trusted: Lean kernel, harness, reference store, encoding/xml as byte-level lexer (tokens → bytes is tied by the correspondence, not proved); the editor's callback order is the one proved/tied under C03/C12. Strings are limited to characters XML 1.0 can carry (= YANG string characters); the text of type empty is unconstrained.",
         "DESIGN.md §8 C19"),
 "C17": ("Lean 4 theorems over the Compare/lookup model; go/ast translator regenerates the Compare-shape table the theorems quantify over; differential correspondence against val.Compare/Equal/CompareVals and Find on slice-backed lists",
         "Theorems (all operand widths, all operands, all key lists): every Compare shape found in val/types.go has the sign of the mathematical difference; equality is an equivalence, order a strict total order; CompareVals is lexicographic; sort.Search+EqualVals and the linear scan return exactly the entry with the requested key. Tie: table regenerated from source on every run and closed by `decide`; 8-bit types compared exhaustively with the model, wider ones on boundary squares.",
         "Trusted: Lean kernel, extractor (regex classification of gofmt-normalised method bodies; unknown shape = opaque = obligation fails), harness; sort.Sort contract, IEEE-754 for Decimal64, enum ids within int32.",
         "DESIGN.md §8 C17"),
}
not_yet = "check not built yet in this round (see DESIGN.md §11 order of work); the Lean-proof technique applies and the design is in DESIGN.md §8"

checks = []
for pid in props:
    if pid in claimed:
        tech, text, note, ref = claimed[pid]
        checks.append({
            "property_id": pid,
            "quick_cmd": f"./check {pid} quick",
            "thorough_cmd": f"./check {pid} thorough",
            "evidence_file": f"/verif/evidence/{pid}.json",
            "replay_cmd_template": f"./check {pid} --replay {{path}}",
            "engine": "lean4+go-correspondence",
            "level_claimed": {"category": "proof", "text": text, "design_ref": ref},
            "level_note": note,
            "technique": tech,
        })
manifest = {
 "version": 1,
 "setup_cmd": "./setup.sh",
 "hooks": {
   "guard": "verif",
   "enable": "go build -tags verif (the harness module replaces github.com/freeconf/yang with /repo)",
   "baseline_off_cmd": "cd /repo && go test -vet=off -count=1 ./...",
   "source_commits": json.load(open(os.path.join(HERE, "tools/hooks.json"))) if os.path.exists(os.path.join(HERE, "tools/hooks.json")) else [],
   "add_only": True,
 },
 "engines": [
   {"name": "lean4+go-correspondence", "path": "/verif/lean + /verif/harness",
    "serves_properties": sorted(claimed), "kind_free_text": "Lean 4 model + theorems (lake build, #print axioms audit), Gen/*.lean regenerated from /repo by a go/ast translator, Go harness diffing the real code against the compiled Lean driver on generated cases"}
 ],
 "checks": checks,
 "notes": "Every check: regenerate Gen/*.lean from /repo, lake build Props module, audit axioms, run correspondence + failing-input search, write evidence. known_findings.txt lists recorded defects and fixes.",
 "not_applicable": [{"property_id": p, "reason": not_yet} for p in props if p not in claimed],
}
json.dump(manifest, open(os.path.join(HERE, "MANIFEST.json"), "w"), indent=1)
print("claimed:", sorted(claimed))
