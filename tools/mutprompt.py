#!/usr/bin/env python3
"""prints the prompt for a seeding sub-agent: tools/mutprompt.py C10 [hint files]"""
import json, sys
pid = sys.argv[1]
hint = sys.argv[2] if len(sys.argv) > 2 else ""
p = [json.loads(l) for l in open('/verif/properties.jsonl') if json.loads(l)['id'] == pid][0]
files = ", ".join(p['anchors']['files'])
print(f"""You are helping test a verification effort by playing the role of a developer who accidentally introduces a subtle bug. You work ONLY inside the git worktree /tmp/mut/{pid} (a checkout of the Go library github.com/freeconf/yang: RFC7950 YANG parser, schema compiler and schema-driven data-tree API with JSON/XML readers and writers). Do NOT read or touch /verif or /repo. No network is available. In every shell call first run: `export GOFLAGS=-mod=mod GOPROXY=off GOSUMDB=off GOTOOLCHAIN=local`.

The semantic property the library is supposed to satisfy:

---
{pid}: {p['title']}

Statement: {p['statement']}

Quantified over: {p['quantifier']['text']}
---

Relevant code is mostly in: {files}. {hint}

Your task: produce TWO different, independent source changes (call them A and B) to the library (non-test .go files only; never edit generated parser tables by hand unless you regenerate nothing else), each of which:
 1. still compiles (`go build ./...`) and still passes the entire existing test suite (`go test -count=1 ./...` from the worktree root — run it and confirm; it takes about a minute),
 2. breaks the property above (makes the library violate the statement for some input/sequence the quantifier covers),
 3. is realistic (the kind of slip a maintainer could make in a refactor or "optimisation": a changed comparison, an off-by-one, a wrong early return, a dropped branch or clone, a removed defer, a swapped precedence, a wrong variable...) and is small (a few lines),
 4. needs something specific to manifest — a particular boundary value, an unusual but legal input, a multi-step sequence of operations, a fault at a particular point, a particular nesting/position, or two cooperating sites that each look fine alone — NOT something that ordinary use or the simplest example would expose at once. Make A and B different in kind and in location.

For each change also write a demonstration: a Go test file (package of your choosing inside the worktree, file name ending in _test.go) that FAILS with the change applied and PASSES on the unmodified worktree. Verify both directions yourself with git apply / git apply -R (do NOT use git stash: the stash is shared with other worktrees).

Deliver, under /tmp/mut/{pid}/out/ (create it; also put an empty-module `go.mod` with `module out` there so `go test ./...` ignores it), for each change X in {{a,b}}:
 - out/X/patch.diff  — `git diff` of the library change only (NOT the demo test), applicable with `git apply` at the worktree root on a clean checkout
 - out/X/demo_test.go — the demonstration test, first-line comment saying which directory it must be copied into and the `go test -run` command
 - out/X/notes.md — what the change is, why it breaks the property, what exactly it needs in order to manifest, and the commands you ran with results (existing suite passes with change; demo fails with change; demo passes without)
Finally leave the worktree clean of your library changes and demo copies (only out/ remains). Report a short summary of A and B.""")
