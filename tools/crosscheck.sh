#!/bin/bash
# tools/crosscheck.sh seed-dir...: applies each seeded change and runs EVERY property's quick check; prints which checks report it
cd /verif
for name in "$@"; do
  d=seeded/$name
  git -C /repo apply /verif/$d/patch.diff || { echo "$name: does-not-apply"; continue; }
  hits=""
  for p in C01 C02 C03 C04 C05 C06 C07 C08 C09 C10 C11 C12 C13 C14 C15 C16 C17 C18 C19; do
    if ./check $p quick 2>&1 | grep -q VIOLATION; then hits="$hits $p"; fi
  done
  git -C /repo checkout -- .
  echo "$name: caught by:${hits:- NONE}"
done
echo crosscheck-done
