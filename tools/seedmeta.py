#!/usr/bin/env python3
"""tools/seedmeta.py <seed-dir-name> <property> <what> <needs> <ran/detected-by text>"""
import json,sys
d,prop,what,needs,ran=sys.argv[1:6]
json.dump({"property":prop,"origin":"sub-agent (independent of /verif)","what":what,"needs":needs,"ran":ran},open(f"/verif/seeded/{d}/meta.json","w"),indent=1)
