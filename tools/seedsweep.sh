#!/bin/bash
# tools/seedsweep.sh [pattern]: applies every seeded change in turn to /repo, runs the property's quick check (and the
# thorough one when quick is silent), restores /repo, and writes seeded/SWEEP.tsv (dir, property, status, tier, first violation).
cd /verif
export GOFLAGS=-mod=mod GOPROXY=off GOSUMDB=off GOTOOLCHAIN=local
out=seeded/SWEEP.tsv
[ -z "$1" ] && : > $out
for d in seeded/${1:-*}/; do
  d=${d%/}; name=$(basename $d)
  [ -f $d/patch.diff ] || continue
  prop=${name%%-*}
  if [ -f $d/neutralised ]; then
    # a later repair of the library took the change's effect away (the reason is in the file): nothing to detect
    printf "%s\t%s\tneutralised\t-\t%s\n" $name $prop "$(head -c 200 $d/neutralised | tr '\t\n' '  ')" >> $out; continue
  fi
  if git -C /repo apply --check /verif/$d/patch.diff 2>/dev/null; then
    git -C /repo apply /verif/$d/patch.diff
  elif git -C /repo apply --3way /verif/$d/patch.diff >/dev/null 2>&1 && ! git -C /repo diff --name-only --diff-filter=U | grep -q .; then
    git -C /repo reset -q
  else
    git -C /repo checkout -- . 2>/dev/null; git -C /repo reset -q --hard HEAD >/dev/null 2>&1
    printf "%s\t%s\tdoes-not-apply\t-\t-\n" $name $prop >> $out; continue
  fi
  if ! (cd /repo && go build ./... ) >/dev/null 2>&1; then
    git -C /repo checkout -- . ; git -C /repo clean -fdq
    printf "%s\t%s\tdoes-not-build\t-\t-\n" $name $prop >> $out; continue
  fi
  tier=quick
  res=$(timeout 600 ./check $prop quick 2>&1 | grep -E "violation:|VIOLATION" | head -2)
  if ! echo "$res" | grep -q VIOLATION && [ -f $d/also_check ]; then
    for q in $(cat $d/also_check); do
      res=$(./check $q quick 2>&1 | grep -E "violation:|VIOLATION" | head -2)
      if echo "$res" | grep -q VIOLATION; then tier="quick of $q"; break; fi
    done
  fi
  if ! echo "$res" | grep -q VIOLATION; then
    tier=thorough
    res=$(timeout 900 ./check $prop thorough 2>&1 | grep -E "violation:|VIOLATION" | head -2)
  fi
  git -C /repo checkout -- . ; git -C /repo clean -fdq
  if echo "$res" | grep -q VIOLATION; then st=detected; else st=MISSED; tier=-; fi
  first=$(echo "$res" | grep "violation:" | head -1 | sed 's/^ *violation: //' | tr '\t' ' ' | cut -c1-220)
  printf "%s\t%s\t%s\t%s\t%s\n" "$name" "$prop" "$st" "$tier" "$first" >> $out
done
rm -f replays/*
# the evidence files describe the unchanged tree: what the runs against a seeded change wrote is dropped
git -C /verif checkout -q -- evidence 2>/dev/null
echo sweep-done
