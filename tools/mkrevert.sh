#!/bin/bash
# tools/mkrevert.sh <prop> <name> <grep-pattern-of-fix-commit>: stores the reverse of a fix commit as a seeded
# mutation and runs the property's quick check against it.
prop=$1; name=$2; pat=$3
h=$(git -C /repo log --format=%h --grep="$pat" -1)
[ -z "$h" ] && { echo "no commit for $pat"; exit 1; }
d=/verif/seeded/$prop-revert-$name
mkdir -p $d
git -C /repo diff $h $h~1 > $d/patch.diff
git -C /repo apply $d/patch.diff || { echo "cannot apply"; exit 1; }
out=$(cd /verif && ./check $prop quick | grep -E "violation:|VIOLATION" | head -3)
git -C /repo checkout -- .
echo "$out"
det=$(echo "$out" | grep -c VIOLATION)
cat > $d/meta.json <<EOT
{"property":"$prop","origin":"reverse of fix commit $h (the defect as it was in the pinned tree)","needs":"see known_findings.txt fixed: line for $h",
 "ran":"git -C /repo apply patch.diff; ./check $prop quick","detected":$([ $det -gt 0 ] && echo true || echo false),
 "first_violation":$(echo "$out" | head -1 | python3 -c 'import json,sys;print(json.dumps(sys.stdin.read().strip()))')}
EOT
# the evidence files describe the unchanged tree: what the runs against a seeded change wrote is dropped
git -C /verif checkout -q -- evidence 2>/dev/null
