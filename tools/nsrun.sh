#!/bin/bash
# tools/nsrun.sh <tag> <command...>: runs the command against a snapshot of /repo and /verif bound over the real paths in a
# mount namespace of its own, so that the live trees can be worked on meanwhile; output to /tmp/ns-<tag>.log, snapshot removed after.
tag=$1; shift
rm -rf /tmp/ns-$tag; mkdir -p /tmp/ns-$tag
cp -a /repo /tmp/ns-$tag/repo; cp -a /verif /tmp/ns-$tag/verif
unshare -m bash -c "mount --bind /tmp/ns-$tag/repo /repo && mount --bind /tmp/ns-$tag/verif /verif && cd /verif && $*" > /tmp/ns-$tag.log 2>&1
rm -rf /tmp/ns-$tag
echo nsrun-$tag-done >> /tmp/ns-$tag.log
