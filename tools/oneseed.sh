#!/bin/bash
# tools/oneseed.sh <seed-dir-name> [props...]: applies one seeded change, runs the quick check of its property (or the ones given), restores /repo
cd /verif
name=$1; shift
d=seeded/$name
props=${@:-${name%%-*}}
if git -C /repo apply --check /verif/$d/patch.diff 2>/dev/null; then git -C /repo apply /verif/$d/patch.diff; echo "applied cleanly"
elif git -C /repo apply --3way /verif/$d/patch.diff >/dev/null 2>&1 && ! git -C /repo diff --name-only --diff-filter=U | grep -q .; then git -C /repo reset -q; echo "applied 3-way"
else git -C /repo checkout -- . 2>/dev/null; git -C /repo reset -q --hard HEAD >/dev/null 2>&1; echo "does-not-apply"; exit 1; fi
(cd /repo && go build ./... 2>&1 | head -3)
for p in $props; do timeout 600 ./check $p quick 2>&1 | grep -v "^KNOWN" | grep -E "violation:|^$p " | head -2 | cut -c1-220; done
git -C /repo checkout -- . ; git -C /repo clean -fdq
# the evidence files describe the unchanged tree: what the runs against a seeded change wrote is dropped
git -C /verif checkout -q -- evidence 2>/dev/null
