#!/bin/bash
# tools/intake.sh Cxx <a|b> <letter> [also-props...]: takes the change a sub-agent left in /tmp/mut/Cxx/out/<a|b> into
# seeded/Cxx-agent-<letter>/, confirms it in the agent's scratch worktree (builds, whole suite passes with it, demo fails
# with it and passes without) and runs ./check Cxx quick (and of the other properties given) against it in a mount namespace
# over copies of /repo and /verif, so that the live trees stay free.  Result: /tmp/intake/Cxx-<letter>.txt
export GOFLAGS=-mod=mod GOPROXY=off GOSUMDB=off GOTOOLCHAIN=local
prop=$1; x=$2; letter=$3; shift 3
src=/tmp/mut/$prop/out/$x; wt=/tmp/mut/$prop
name=$prop-agent-$letter; d=/verif/seeded/$name
mkdir -p $d /tmp/intake; out=/tmp/intake/$prop-$letter.txt; : > $out
cp $src/patch.diff $src/demo_test.go $src/notes.md $d/ 2>>$out
dir=$(head -5 $d/demo_test.go | grep -oiE '(copy|copied|place|put)[a-z ]* (in|into|to|under) `?[A-Za-z_/\.]+' | head -1 | awk '{print $NF}' | tr -d '`' | sed 's#/[a-z0-9_]*_test\.go$##; s#/$##; s#^\./##')
run=$(head -5 $d/demo_test.go | grep -oE '\-run[ =]+[^ ]+' | head -1 | sed 's/-run[ =]*//' | tr -d "'\"")
[ -n "$DEMO_DIR" ] && dir=$DEMO_DIR
if [ -z "$dir" ] || [ ! -d "$wt/$dir" ]; then pk=$(grep -m1 '^package ' $d/demo_test.go | awk '{print $2}' | sed 's/_test$//'); dir=$pk; [ "$pk" = yang ] && dir=.; fi
[ -z "$run" ] && run=$(grep -oE '^func (Test[A-Za-z0-9_]+)' $d/demo_test.go | head -1 | awk '{print $2}')
echo "demo dir=$dir run=$run" >> $out
cd $wt && git checkout -q -- . && git clean -fdq -e out
if ! git apply $d/patch.diff 2>>$out; then echo "CONFIRM: patch does not apply" >> $out; exit 1; fi
if ! go build ./... >>$out 2>&1; then echo "CONFIRM: does not build" >> $out; git checkout -q -- .; exit 1; fi
if go test -count=1 ./... > /tmp/intake/$prop-$letter.suite.log 2>&1; then echo "CONFIRM: suite passes with the change" >> $out; else echo "CONFIRM: SUITE FAILS with the change" >> $out; grep -E '^(--- FAIL|FAIL)' /tmp/intake/$prop-$letter.suite.log | head -5 >> $out; fi
cp $d/demo_test.go $wt/$dir/zz_demo_${letter}_test.go
if go test -count=1 -run "$run" ./$dir/ > /tmp/intake/$prop-$letter.demo1.log 2>&1; then echo "CONFIRM: DEMO PASSES with the change (bad)" >> $out; else echo "CONFIRM: demo fails with the change" >> $out; grep -E '^\s*--- FAIL|_test.go:[0-9]+:' /tmp/intake/$prop-$letter.demo1.log | head -3 >> $out; fi
git apply -R $d/patch.diff
if go test -count=1 -run "$run" ./$dir/ > /tmp/intake/$prop-$letter.demo0.log 2>&1; then echo "CONFIRM: demo passes without the change" >> $out; else echo "CONFIRM: DEMO FAILS without the change (bad)" >> $out; tail -5 /tmp/intake/$prop-$letter.demo0.log >> $out; fi
rm -f $wt/$dir/zz_demo_${letter}_test.go; git checkout -q -- .
# the checks, against copies
tag=$prop$letter
rm -rf /tmp/ns-$tag; mkdir -p /tmp/ns-$tag
cp -a /repo /tmp/ns-$tag/repo; cp -a /verif /tmp/ns-$tag/verif
for p in $prop "$@"; do
  unshare -m bash -c "mount --bind /tmp/ns-$tag/repo /repo && mount --bind /tmp/ns-$tag/verif /verif && cd /verif && git -C /repo apply /verif/seeded/$name/patch.diff && (timeout 900 ./check $p quick 2>&1 | grep -v '^KNOWN' | grep -E 'violation:|VIOLATION|^$p ' | head -4 | cut -c1-400); git -C /repo checkout -- ." > /tmp/intake/$prop-$letter.check-$p.log 2>&1
  if grep -q VIOLATION /tmp/intake/$prop-$letter.check-$p.log; then echo "CHECK $p quick: DETECTED" >> $out; else echo "CHECK $p quick: MISSED" >> $out; fi
  head -3 /tmp/intake/$prop-$letter.check-$p.log >> $out
done
rm -rf /tmp/ns-$tag
echo intake-done >> $out
