#!/bin/bash
# tools/parsweep.sh [N]: the sweep of tools/seedsweep.sh, N ways in parallel. /repo and /verif are fixed paths (the harness
# module replaces the library by /repo), so every worker runs in a mount namespace of its own in which copies of the
# two trees are bound over /repo and /verif; the parts are concatenated into seeded/SWEEP.tsv. Scratch copies live
# under /tmp/sw and are removed at the end.
N=${1:-8}
cd /verif
rm -rf /tmp/sw; mkdir -p /tmp/sw
ls -d seeded/*/ | xargs -n1 basename | awk -v n=$N '{print > "/tmp/sw/list" (NR%n)}'
for i in $(seq 0 $((N-1))); do
  mkdir -p /tmp/sw/$i
  cp -a /repo /tmp/sw/$i/repo
  cp -a /verif /tmp/sw/$i/verif
  unshare -m bash -c "mount --bind /tmp/sw/$i/repo /repo && mount --bind /tmp/sw/$i/verif /verif && cd /verif && : > seeded/SWEEP.tsv && for s in \$(cat /tmp/sw/list$i); do tools/seedsweep.sh \$s >/dev/null 2>&1; done; cp seeded/SWEEP.tsv /tmp/sw/part$i.tsv" &
done
wait
cat /tmp/sw/part*.tsv | sort > seeded/SWEEP.tsv
rm -rf /tmp/sw
wc -l seeded/SWEEP.tsv
echo parsweep-done
