#!/usr/bin/env python3
"""Assembles /verif/DESIGN.md: hand-written parts (docs/design_head.md, docs/design_tail.md, docs/false_alarms.md,
docs/prop_notes.md) + per-property sections generated from tools/mkmanifest.py, lean/YangVerif/Props/*.lean,
evidence/*.json, seeded/*/meta.json + seeded/SWEEP.tsv and known_findings.txt, so that the document cannot drift
from what the checks do."""
import glob, json, os, re, sys
HERE = os.path.dirname(os.path.dirname(os.path.abspath(__file__)))
sys.path.insert(0, os.path.join(HERE, "tools"))
import mkmanifest

def read(p):
    return open(os.path.join(HERE, p), errors="replace").read()

props = [json.loads(l) for l in open(os.path.join(HERE, "properties.jsonl"))]
notes = {}
cur = None
for line in read("docs/prop_notes.md").split("\n"):
    m = re.match(r"^## (C\d\d)\s*$", line)
    if m:
        cur = m.group(1); notes.setdefault(cur, []).append("")
    elif cur:
        notes[cur].append(line)

sweep = {}
if os.path.exists(os.path.join(HERE, "seeded/SWEEP.tsv")):
    for l in read("seeded/SWEEP.tsv").split("\n"):
        f = l.split("\t")
        if len(f) >= 5:
            sweep[f[0]] = f

known, fixed = {}, {}
for l in read("known_findings.txt").split("\n"):
    m = re.match(r"^(known|fixed): property=(C\d\d)\s+(.*)$", l)
    if m:
        (known if m.group(1) == "known" else fixed).setdefault(m.group(2), []).append(m.group(3))

def theorems(pid):
    p = os.path.join(HERE, "lean/YangVerif/Props", pid + ".lean")
    if not os.path.exists(p):
        return [], []
    s = open(p).read()
    return re.findall(r"(?m)^\s*theorem\s+([A-Za-z0-9_.']+)", s), re.findall(r"(?m)^import YangVerif\.(\S+)", s)

def esc(s):
    return s.replace("|", "\\|").replace("\n", " ")

import subprocess
nfix = subprocess.run(["git", "-C", "/repo", "log", "--oneline", "--grep=^fix:"], capture_output=True, text=True).stdout.count("\n")
nknown = len({re.search(r"id=(\S+)", k).group(1) for ks in known.values() for k in ks if re.search(r"id=(\S+)", k)})
out = [read("docs/design_head.md").replace("{{NFIX}}", str(nfix)).replace("{{NKNOWN}}", str(nknown))]
out.append("\n## 5. Per property: what was built\n\nGenerated from the manifest table (`tools/mkmanifest.py`), the theorem names in `lean/YangVerif/Props/`, the last evidence files, `seeded/` and `known_findings.txt`. “Theorems” are the statements the kernel checks on every run; “Tie” is what connects them to `/repo`; “Search” is how a failing input is looked for when either breaks. The round-0 design of each property (specification sketches, the defects expected from reading the code) is kept in `docs/DESIGN-round0.md` §8.\n")
for p in props:
    pid = p["id"]
    out.append(f"\n### {pid} — {p['title']}\n")
    if pid not in mkmanifest.claimed:
        out.append("Not claimed.\n")
        continue
    tech, level, note, _ = mkmanifest.claimed[pid]
    ths, imps = theorems(pid)
    out.append(f"*Technique.* {tech}.\n")
    drv = f", driver handlers `lean/YangVerif/Drv/{pid}.lean` (the model's executable definitions run on the harness's cases)" if os.path.exists(os.path.join(HERE, "lean/YangVerif/Drv", pid + ".lean")) else ""
    out.append(f"*Files.* `lean/YangVerif/Props/{pid}.lean` (imports {', '.join('`'+i+'`' for i in imps)}){drv}, harness `harness/props/{pid.lower()}.go`.\n")
    out.append(f"*Theorems checked on every run ({len(ths)}).* " + ", ".join("`" + t + "`" for t in ths) + ".\n")
    out.append(f"*What they say, and the tie.* {level}\n")
    out.append(f"*Trusted / not covered.* {note}\n")
    ev = os.path.join(HERE, "evidence", pid + ".json")
    if os.path.exists(ev):
        e = json.load(open(ev))
        c = e.get("coverage", {})
        out.append(f"*Last run ({e.get('tier')}, seed {e.get('seed')}).* {c.get('obligations')} obligations, {c.get('discharged')} discharged; {c.get('evaluations')} evaluations, {c.get('distinct_nontrivial')} distinct non-trivial; axioms seen: {', '.join(sorted(c.get('axioms_seen', {}).keys())) or 'none'}. Input rule: {c.get('rule')}\n")
    if pid in notes:
        out.append("\n".join(notes[pid]).strip() + "\n")
    if pid in known:
        out.append("*Known findings (printed as KNOWN-FINDING, exit 0).*\n")
        for k in known[pid]:
            out.append(f"- {k}")
        out.append("")
    if pid in fixed:
        out.append(f"*Defects repaired in `/repo` ({len(fixed[pid])} `fix:` commits; each has a revert seed below).*\n")
        for k in fixed[pid]:
            out.append(f"- {k}")
        out.append("")
    rows = []
    for d in sorted(glob.glob(os.path.join(HERE, "seeded", pid + "-*"))):
        name = os.path.basename(d)
        mp = os.path.join(d, "meta.json")
        meta = json.load(open(mp)) if os.path.exists(mp) else {}
        sw = sweep.get(name)
        status = f"{sw[2]} ({sw[3]})" if sw else "not swept"
        first = sw[4] if sw else ""
        what = meta.get("what") or meta.get("origin", "")
        if os.path.exists(os.path.join(d, "patch.orig.diff")):
            what += " [re-created on the repaired tree; the patch as first made is patch.orig.diff]"
        hist = meta.get("ran", "")
        missed = "yes" if "MISSED" in hist else ""
        rows.append(f"| `{name}` | {esc(what)[:260]} | {status} | {esc(first)[:160]} | {missed} |")
    if rows:
        out.append("*Seeded changes.*\n\n| seed | change | last sweep | first violation line | missed at first |\n|---|---|---|---|---|")
        out.extend(rows)
        out.append("")

out.append(read("docs/design_tail.md").replace("{{NFIX}}", str(nfix)).replace("{{NNEUTRAL}}", str(len(glob.glob(os.path.join(HERE, "seeded", "*", "neutralised"))))))
# seeds missed at first: the strengthening
out.append("\n### Seeds that were missed at first, and what was strengthened\n")
for d in sorted(glob.glob(os.path.join(HERE, "seeded", "*"))):
    mp = os.path.join(d, "meta.json")
    if not os.path.exists(mp):
        continue
    meta = json.load(open(mp))
    if "MISSED" in meta.get("ran", ""):
        out.append(f"- `{os.path.basename(d)}`: {meta.get('ran')}")
out.append("")
out.append(read("docs/false_alarms.md"))
open(os.path.join(HERE, "DESIGN.md"), "w").write("\n".join(out))
print("DESIGN.md written:", sum(len(x.split('\n')) for x in out), "lines")
