#!/bin/bash
# tools/multiseed.sh tier seeds... : every property on the unchanged tree for several seeds; prints one line per run
cd /verif
tier=$1; shift
for s in "$@"; do
  for p in C01 C02 C03 C04 C05 C06 C07 C08 C09 C10 C11 C12 C13 C14 C15 C16 C17 C18 C19 C20; do
    VERIF_SEED=$s ./check $p $tier 2>&1 | grep -E "VIOLATION|violation:|KNOWN-FINDING|^$p " | cut -c1-260
  done
done
echo multiseed-done
